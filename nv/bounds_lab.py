"""Bound recipes: build any bound class from a JSON recipe (C07, C08, C09)."""

import copy
import warnings

import numpy as np
from hypothesis import strategies as st

from nv import gens

NN_KW = dict(hidden_layer_sizes=(8,), max_iter=30)

CLASSES = ['UnitCube', 'Ellipsoid', 'Mixture', 'Union', 'Neural', 'Nautilus']


@st.composite
def recipes(draw, classes=None, d_min=1, d_max=8, max_ops=5, n_max=300,
            pools=(0,), allow_outside=True, overlap_bias=False,
            extreme_ratio=False):
    cls = draw(st.sampled_from(classes or CLASSES))
    dmin = d_min
    if cls in ('Neural', 'Nautilus', 'Union'):
        dmin = max(d_min, 2) if cls != 'Union' else d_min
    if cls in ('Neural', 'Nautilus'):
        dmin = max(dmin, 2)
    fams = None
    if cls in ('Union', 'Nautilus') and draw(st.booleans()):
        fams = ['clusters', 'arc', 'banana', 'face', 'wrapped']
    spec = draw(gens.point_specs(
        d_min=dmin, d_max=d_max,
        n_min=(60 if cls in ('Nautilus', 'Neural') else
               12 if cls == 'Union' else None),
        n_max=n_max, families=fams,
        extreme_ratio=(extreme_ratio and cls in ('Ellipsoid', 'Mixture',
                                                 'Union')),
        allow_outside=(allow_outside and cls in ('Ellipsoid', 'Union'))))
    d = spec['d']
    if cls in ('Neural', 'Nautilus'):
        # the regime the sampler builds these bounds in: enough live points
        # per dimension, moderate anisotropy and enlargement.  Outside it the
        # rejection sampler is merely slow (acceptance -> 0), which none of
        # the properties is about.
        spec['n'] = max(spec['n'], 15 * d)
        spec['ratio'] = min(spec['ratio'], 30.0)
        spec['scale'] = max(spec['scale'], 0.02)
    r = dict(cls=cls, pts=spec, seed=draw(st.integers(0, 2 ** 32 - 1)),
             enlarge=draw(st.sampled_from([1.05, 1.1, 1.3, 1.5])
                          if cls in ('Neural', 'Nautilus') else
                          st.sampled_from([1.001, 1.05, 1.1, 1.3, 2.0, 3.0])
                          if not overlap_bias else
                          st.sampled_from([1.2, 1.5, 2.0])))
    if cls == 'Union':
        r['member'] = draw(st.sampled_from(['Ellipsoid', 'Mixture']))
        r['unit'] = draw(st.booleans()) if spec.get('fold') != 'none' \
            else False
        r['npm'] = draw(st.sampled_from([None, d + 1, d + 5, d + 20]))
        ops = draw(st.lists(st.sampled_from(
            ['split', 'split', 'split', 'split_noov', 'trim_lo', 'trim_hi',
             'sample', 'log_v']), max_size=max_ops))
        r['ops'] = [o for o in ops if not (
            o == 'split_noov' and r['member'] != 'Ellipsoid')]
        r['ns'] = draw(st.lists(st.sampled_from(
            [1, 7, 137, 999, 1000, 1001, 2500]), min_size=3, max_size=3))
    if cls in ('Union', 'Nautilus') and 'dups' in spec and (
            r.get('npm') is None or r['npm'] < d + 5):
        # a split may produce a child of n_points_min = d+1 rows; with
        # duplicated rows among them the child is rank-deficient (8 distinct
        # rows in 8-d): the general-position precondition, not a finding
        del spec['dups']
    if cls in ('Neural', 'Nautilus'):
        r['n_networks'] = draw(st.sampled_from([0, 0, 1, 2]))
        r['q'] = draw(st.sampled_from([0.3, 0.5, 0.8]))
        # documented: non-default keyword arguments of MLPRegressor
        r['nn'] = draw(st.sampled_from([
            {}, {}, {'activation': 'tanh'}, {'activation': 'logistic'},
            {'hidden_layer_sizes': [6, 4]}, {'solver': 'lbfgs'},
            {'activation': 'identity', 'alpha': 0.01}]))
    if cls == 'Nautilus':
        r['npm'] = draw(st.sampled_from([None, d + 1, d + 5, d + 50]))
        r['split_threshold'] = draw(st.sampled_from([1, 1, 100]))
        r['log_v_target'] = draw(st.sampled_from([-3.0, -8.0, -20.0]))
        per = draw(st.lists(st.integers(0, d - 1), max_size=min(d, 3),
                            unique=True))
        r['periodic'] = sorted(per) if (per and (
            spec['family'] == 'wrapped' or draw(st.booleans()))) else None
        r['pool'] = draw(st.sampled_from(list(pools)))
        # points drawn before the bound is written (non-empty proposal
        # cache and counters at write time)
        r['pre'] = draw(st.sampled_from([0, 0, 1, 137, 1000]))
        r['ns'] = draw(st.lists(st.sampled_from(
            [1, 7, 137, 999, 1000, 1001, 2500]), min_size=3, max_size=3))
    return r


def apply_union_op(u, op):
    if op == 'split':
        return u.split()
    if op == 'split_noov':
        return u.split(allow_overlap=False)
    if op == 'trim_lo':
        return u.trim(threshold=1.01)
    if op == 'trim_hi':
        return u.trim()
    if op == 'sample':
        return u.sample(137)
    if op == 'log_v':
        return u.log_v
    raise ValueError(op)


class Built:
    pass


def nn_kw(r):
    kw = dict(NN_KW)
    for k, v in r.get('nn', {}).items():
        kw[k] = tuple(v) if isinstance(v, list) else v
    return kw


def build(r, pool=None):
    """Build the bound of a recipe.  Returns a Built record."""
    from nautilus.bounds import (UnitCube, Ellipsoid, UnitCubeEllipsoidMixture,
                                 Union, NeuralBound, NautilusBound)
    warnings.simplefilter('ignore')
    out = Built()
    out.recipe = r
    pts = gens.points_from_spec(r['pts'])
    d = pts.shape[1]
    rng = np.random.default_rng(r['seed'])
    out.rng, out.points, out.d = rng, pts, d
    out.must_contain = None      # rows the bound was built from
    out.unit = False             # bound restricted to the unit cube?
    out.outer = None
    cls = r['cls']
    if cls == 'UnitCube':
        out.bound = UnitCube.compute(d, rng=rng)
        out.unit = True
    elif cls == 'Ellipsoid':
        out.bound = Ellipsoid.compute(pts, enlarge_per_dim=r['enlarge'],
                                      rng=rng)
        out.must_contain = pts
    elif cls == 'Mixture':
        out.bound = UnitCubeEllipsoidMixture.compute(
            pts, enlarge_per_dim=r['enlarge'], rng=rng)
        out.must_contain = pts
    elif cls == 'Union':
        mc = Ellipsoid if r['member'] == 'Ellipsoid' else \
            UnitCubeEllipsoidMixture
        out.bound = Union.compute(pts, enlarge_per_dim=r['enlarge'],
                                  n_points_min=r['npm'], unit=r['unit'],
                                  bound_class=mc, rng=rng)
        out.unit = r['unit']
        out.must_contain = pts
        out.op_results = []
        for op in r.get('ops', []):
            out.op_results.append(apply_union_op(out.bound, op))
    elif cls == 'Neural':
        log_l = gens.gaussian_log_l(pts)
        log_l_min = float(np.quantile(log_l, r['q']))
        out.bound = NeuralBound.compute(
            pts, log_l, log_l_min, enlarge_per_dim=r['enlarge'],
            n_networks=r['n_networks'], neural_network_kwargs=nn_kw(r),
            rng=rng)
        out.log_l, out.log_l_min = log_l, log_l_min
    elif cls == 'Nautilus':
        log_l = gens.gaussian_log_l(pts)
        log_l_min = float(np.quantile(log_l, r['q']))
        periodic = None if r['periodic'] is None else np.array(
            r['periodic'], dtype=int)
        out.bound = NautilusBound.compute(
            pts, log_l, log_l_min, r['log_v_target'],
            enlarge_per_dim=r['enlarge'], n_points_min=r['npm'],
            split_threshold=r['split_threshold'], periodic=periodic,
            n_networks=r['n_networks'], neural_network_kwargs=nn_kw(r),
            pool=pool, rng=rng)
        out.unit = True
        out.log_l, out.log_l_min = log_l, log_l_min
        # acceptance of the network/ellipsoid filter, measured on a copy (the
        # copy carries its own copy of the generator: the original is
        # untouched).  Recipes with acceptance below 2 % are merely slow.
        bc = copy.deepcopy(out.bound)
        bc.sample(1)
        out.acceptance = 1.0 - bc.n_reject / bc.n_sample
        if r.get('pre') and out.acceptance >= 0.02:
            out.bound.sample(r['pre'], pool=pool)
    else:
        raise ValueError(cls)
    return out


def clone_rng(rng):
    r2 = np.random.default_rng(0)
    r2.bit_generator.state = copy.deepcopy(rng.bit_generator.state)
    return r2


def rng_state_key(rng):
    s = rng.bit_generator.state
    return (s['state']['state'], s['state']['inc'], s['has_uint32'],
            s['uinteger'])


def probes(built, n=400, seed=0):
    """Probe points: uniform (slightly beyond the cube), the bound's own
    samples (drawn from a deep copy), near the surface of member ellipsoids."""
    rng = np.random.default_rng(seed)
    d = built.d
    parts = [rng.random((n, d)), rng.uniform(-0.3, 1.3, (n // 2, d)),
             built.points[: n // 2]]
    b = built.bound
    try:
        bc = copy.deepcopy(b)
        if hasattr(bc, 'sample'):
            parts.append(np.asarray(bc.sample(n // 2)))
    except Exception:
        pass
    for e in ellipsoids_of(b)[:6]:
        k = e.n_dim
        v = rng.normal(size=(40, k))
        v /= np.linalg.norm(v, axis=1)[:, None]
        rad = 1 + rng.choice([-1e-3, -1e-9, 1e-9, 1e-3], size=(40, 1))
        s = e.transform(v * rad, inverse=True)
        if k == d:
            parts.append(s)
    return np.vstack(parts)


def ellipsoids_of(b):
    """All Ellipsoid objects inside a bound (any nesting)."""
    from nautilus.bounds import Ellipsoid
    out = []
    seen = set()

    def rec(o):
        if id(o) in seen or o is None:
            return
        seen.add(id(o))
        if isinstance(o, Ellipsoid):
            out.append(o)
            return
        for name in ('bounds', 'neural_bounds'):
            for c in getattr(o, name, []) or []:
                rec(c)
        for name in ('outer_bound', 'ellipsoid'):
            rec(getattr(o, name, None))
    rec(b)
    return out
