"""Likelihood / prior / blob families with call logs (sampler-level checks).

Everything here is picklable (module-level classes), so it can be shipped to
worker pools.  Bit-exact families use only + - * / comparisons and np.where,
accumulated coordinate by coordinate, so scalar and vectorised evaluation are
IEEE-identical by construction.
"""

import multiprocessing as mp

import numpy as np
from hypothesis import strategies as st

# shared across forked pool workers (created before any pool exists)
ROWS = mp.Value('q', 0)

BITEXACT = ['gauss', 'twomax', 'banana', 'rfunnel', 'halfspace', 'stairs',
            'constant', 'wrap', 'slab', 'spike']
FAMILIES = BITEXACT + ['funnel']
BLOBS = ['none', 'float', 'int', 'bool', 'S8', 'two', 'struct',
         'two_single', 'array']
PRIORS = ['identity', 'inplace', 'dictfn', 'Prior', 'PriorArray']


class PriorFn:
    """Prior given as a function (identity / in-place affine / dict)."""

    def __init__(self, kind, d, scale=None, shift=None):
        self.kind, self.d = kind, d
        self.scale = np.asarray(scale if scale is not None else np.ones(d))
        self.shift = np.asarray(shift if shift is not None else np.zeros(d))
        self.log = None          # list of raw unit-cube arguments (copies)

    def __call__(self, u):
        if self.log is not None:
            self.log.append(np.array(u, copy=True))
        if self.kind == 'identity':
            return u
        if self.kind == 'inplace':
            # deliberately modifies its argument
            u *= self.scale
            u += self.shift
            return u
        if self.kind == 'dictfn':
            return {'p%d' % j: u[..., j] * self.scale[j] + self.shift[j]
                    for j in range(self.d)}
        raise ValueError(self.kind)


class Problem:
    """A likelihood with optional blobs; a pure function of its argument."""

    def __init__(self, spec):
        self.spec = spec
        self.d = spec['d']
        self.family = spec['family']
        self.blob = spec.get('blob', 'none')
        self.prior_kind = spec.get('prior', 'identity')
        p = spec.get('params', {})
        d = self.d
        self.mu = np.asarray(p.get('mu', [0.5] * d), dtype=float)
        self.inv_s = 1.0 / np.asarray(p.get('sigma', [0.1] * d), dtype=float)
        self.mu2 = np.asarray(p.get('mu2', [0.3] * d), dtype=float)
        self.off2 = float(p.get('off2', -1.0))
        self.a = float(p.get('a', 0.6))
        self.k = float(p.get('k', 5.0))
        self.curv = float(p.get('curv', 8.0))
        self.steps = [float(t) for t in p.get('steps', [0.5, 0.8, 0.95])]
        self.slab_w = float(p.get('slab_w', 0.01))
        self.scale = np.asarray(spec.get('scale', [1.0] * d), dtype=float)
        self.shift = np.asarray(spec.get('shift', [0.0] * d), dtype=float)
        self.keys = ['p%d' % j for j in range(d)]
        self.bitexact = self.family in BITEXACT
        self.log = None           # list of (key, log_l, blob tuple)
        self.n_calls = 0
        self.n_rows = 0
        self.batch_rows = None    # rows of each call
        self.count_shared = False

    # -- argument handling -------------------------------------------------
    def z_of(self, arg):
        """Map the likelihood argument back to unit-like coordinates."""
        if isinstance(arg, dict):
            cols = [(np.asarray(arg[k]) - self.shift[j]) / self.scale[j]
                    for j, k in enumerate(self.keys)]
            return cols
        x = np.asarray(arg)
        return [(x[..., j] - self.shift[j]) / self.scale[j]
                for j in range(self.d)]

    def key_of(self, arg, i=None):
        """Bytes identifying one evaluated row: the physical values of the
        free parameters (the same for array and dictionary arguments)."""
        if isinstance(arg, dict):
            if i is None:
                return b''.join(np.float64(arg[k]).tobytes()
                                for k in self.keys)
            return b''.join(np.float64(np.asarray(arg[k])[i]).tobytes()
                            for k in self.keys)
        x = np.asarray(arg, dtype=float)
        return (x if i is None else x[i]).tobytes()

    # -- the likelihood ----------------------------------------------------
    def loglike_cols(self, z):
        f = self.family
        d = self.d
        acc = z[0] * 0.0
        if f in ('gauss', 'slab', 'twomax'):
            for j in range(d):
                t = (z[j] - self.mu[j]) * self.inv_s[j]
                acc = acc - 0.5 * t * t
            if f == 'slab':
                t = z[1] - 0.5
                acc = np.where((t < self.slab_w) & (t > -self.slab_w),
                               -np.inf, acc)
            if f == 'twomax':
                acc2 = z[0] * 0.0 + self.off2
                for j in range(d):
                    t = (z[j] - self.mu2[j]) * self.inv_s[j]
                    acc2 = acc2 - 0.5 * t * t
                acc = np.where(acc2 > acc, acc2, acc)
        elif f == 'banana':
            t0 = (z[0] - 0.5) * self.inv_s[0]
            acc = acc - 0.5 * t0 * t0
            t1 = (z[1] - 0.3 - self.curv * (z[0] - 0.5) * (z[0] - 0.5)
                  ) * self.inv_s[1]
            acc = acc - 0.5 * t1 * t1
            for j in range(2, d):
                t = (z[j] - self.mu[j]) * self.inv_s[j]
                acc = acc - 0.5 * t * t
        elif f == 'rfunnel':
            t0 = (z[0] - 0.5) * 8.0
            acc = acc - 0.5 * t0 * t0
            w = 0.004 + 0.6 * z[0] * z[0] * z[0]
            t1 = (z[1] - 0.5) / w
            acc = acc - 0.5 * t1 * t1 - 40.0 * w
            for j in range(2, d):
                t = (z[j] - self.mu[j]) * self.inv_s[j]
                acc = acc - 0.5 * t * t
        elif f == 'funnel':
            t0 = (z[0] - 0.5) / 0.1
            w = np.exp(20 * (z[0] - 0.5)) / 100
            t1 = (z[1] - 0.5) / w
            acc = acc - 0.5 * t0 * t0 - 0.5 * t1 * t1 - np.log(w)
            for j in range(2, d):
                t = (z[j] - self.mu[j]) * self.inv_s[j]
                acc = acc - 0.5 * t * t
        elif f == 'spike':
            # broad mode plus a tall narrow spike: late in the exploration a
            # few stray live points remain in the broad mode, far from the
            # dense cluster in the spike (sparse ellipsoids, trims)
            g = z[0] * 0.0
            sp = z[0] * 0.0 + self.off2
            for j in range(d):
                t = (z[j] - self.mu[j]) * self.inv_s[j]
                g = g - 0.5 * t * t
                t = (z[j] - self.mu2[j]) * 200.0
                sp = sp - 0.5 * t * t
            acc = np.where(sp > g, sp, g)
        elif f == 'twosum':
            # two separated Gaussian modes, summed (closed-form evidence)
            g1 = z[0] * 0.0
            g2 = z[0] * 0.0 + self.off2
            for j in range(d):
                t = (z[j] - self.mu[j]) * self.inv_s[j]
                g1 = g1 - 0.5 * t * t
                t = (z[j] - self.mu2[j]) * self.inv_s[j]
                g2 = g2 - 0.5 * t * t
            acc = np.logaddexp(g1, g2)
        elif f == 'halflog':
            with np.errstate(divide='ignore', invalid='ignore'):
                acc = np.where(z[0] < self.a, -np.inf,
                               np.log(np.maximum(z[0] - self.a, 0.0)))
        elif f == 'halfspace':
            acc = np.where(z[0] < self.a, -np.inf, self.k * (z[0] - self.a))
        elif f == 'stairs':
            for t in self.steps:
                acc = acc + np.where(z[0] > t, 1.5, 0.0)
        elif f == 'constant':
            pass
        elif f == 'wrap':
            dz = z[0] - self.mu[0]
            dz = np.where(dz > 0.5, dz - 1.0, dz)
            dz = np.where(dz < -0.5, dz + 1.0, dz)
            t = dz * self.inv_s[0]
            acc = acc - 0.5 * t * t
            for j in range(1, d):
                t = (z[j] - self.mu[j]) * self.inv_s[j]
                acc = acc - 0.5 * t * t
        else:
            raise ValueError(f)
        return acc

    def blob_cols(self, z, scalar):
        b = self.blob
        if b == 'none':
            return None
        z0, z1 = z[0], z[1]
        if b == 'float':
            return (z0 * 3.0 + z1,)
        if b == 'int':
            v = z0 * 1e9 + z1 * 1e3
            return (np.int64(v) if scalar else np.asarray(v).astype(np.int64),)
        if b == 'bool':
            return (np.bool_(z0 > z1) if scalar else np.asarray(z0 > z1),)
        if b == 'S8':
            if scalar:
                return (np.bytes_(b'%08d' % (int(z0 * 1e8) % 10 ** 8)),)
            return (np.array([b'%08d' % (int(v * 1e8) % 10 ** 8)
                              for v in np.atleast_1d(z0)], dtype='S8'),)
        if b in ('two', 'struct', 'two_single'):
            v = z1 * 1e6
            return (z0 * 1.0,
                    np.int64(v) if scalar else np.asarray(v).astype(np.int64))
        if b == 'array':
            if scalar:
                return (np.array([z0, z1, z0 + z1]),)
            return (np.stack([z0, z1, z0 + z1], axis=-1),)
        raise ValueError(b)

    def blobs_dtype(self):
        """The blobs_dtype argument to pass to the sampler (or None)."""
        return {'struct': [('a', 'f4'), ('b', 'i8')],
                'two_single': np.float32}.get(self.blob, None)

    def pure(self, arg):
        """(log_l, blob tuple or None) for ONE row - the reference (with the
        keyword arguments the sampler was configured with)."""
        z = self.z_of(arg)
        ll = float(self.loglike_cols(z) + self.spec.get('tilt', 0.0) * z[0])
        return ll, self.blob_cols(z, True)

    def __call__(self, arg, tilt=0.0):
        # `tilt` is only ever supplied through Sampler(likelihood_kwargs=...)
        z = self.z_of(arg)
        scalar = np.ndim(z[0]) == 0
        ll = self.loglike_cols(z) + tilt * z[0]
        blobs = self.blob_cols(z, scalar)
        n = 1 if scalar else len(np.atleast_1d(ll))
        self.n_calls += 1
        self.n_rows += n
        if self.batch_rows is not None:
            self.batch_rows.append(n)
        if self.count_shared:
            with ROWS.get_lock():
                ROWS.value += n
        if self.log is not None:
            if scalar:
                self.log.append((self.key_of(arg), float(ll), blobs))
            else:
                for i in range(n):
                    self.log.append((
                        self.key_of(arg, i), float(ll[i]),
                        None if blobs is None else tuple(
                            np.asarray(b)[i] for b in blobs)))
        if scalar:
            ll = float(ll)
        if blobs is None:
            return ll
        return (ll,) + tuple(blobs)

    # -- expected stored blob ---------------------------------------------
    def expected_blob(self, blob_tuple, dtype):
        """What the sampler should store for one row's blob tuple."""
        if self.blob in ('two', 'struct'):
            return np.array([tuple(blob_tuple)], dtype=dtype)[0]
        if self.blob == 'two_single':
            return np.array([tuple(blob_tuple)], dtype=dtype)[0]
        return np.asarray(blob_tuple[0]).astype(dtype)


def closed_form(spec):
    """(log Z, posterior means or None per coordinate) for the families with
    an analytic answer; None otherwise.  Identity prior only."""
    from scipy.stats import norm, truncnorm
    p = spec.get('params', {})
    d, f = spec['d'], spec['family']
    mu = np.asarray(p.get('mu', [0.5] * d), dtype=float)
    sg = np.asarray(p.get('sigma', [0.1] * d), dtype=float)

    def gauss_z(m, s, lo=0.0, hi=1.0):
        return s * np.sqrt(2 * np.pi) * (norm.cdf((hi - m) / s) -
                                         norm.cdf((lo - m) / s))

    def gauss_mean(m, s, lo=0.0, hi=1.0):
        return truncnorm.mean((lo - m) / s, (hi - m) / s, loc=m, scale=s)

    if f == 'gauss':
        z = [gauss_z(mu[j], sg[j]) for j in range(d)]
        return float(np.sum(np.log(z))), [float(gauss_mean(mu[j], sg[j]))
                                          for j in range(d)]
    if f == 'twosum':
        mu2 = np.asarray(p.get('mu2', [0.3] * d), dtype=float)
        off2 = float(p.get('off2', -1.0))
        z1 = np.prod([gauss_z(mu[j], sg[j]) for j in range(d)])
        z2 = np.exp(off2) * np.prod([gauss_z(mu2[j], sg[j])
                                     for j in range(d)])
        means = [float((z1 * gauss_mean(mu[j], sg[j]) +
                        z2 * gauss_mean(mu2[j], sg[j])) / (z1 + z2))
                 for j in range(d)]
        return float(np.log(z1 + z2)), means
    if f == 'halflog':
        a = float(p.get('a', 0.6))
        return float(np.log((1 - a) ** 2 / 2)), [a + 2 * (1 - a) / 3] + \
            [0.5] * (d - 1)
    if f == 'wrap':
        z = [gauss_z(0.0, sg[0], -0.5, 0.5)] + [
            gauss_z(mu[j], sg[j]) for j in range(1, d)]
        return float(np.sum(np.log(z))), [None] + [
            float(gauss_mean(mu[j], sg[j])) for j in range(1, d)]
    if f == 'constant':
        return 0.0, [0.5] * d
    return None


def make_prior(spec):
    """Build the prior argument of the Sampler for a problem spec."""
    kind, d = spec.get('prior', 'identity'), spec['d']
    scale = spec.get('scale', [1.0] * d)
    shift = spec.get('shift', [0.0] * d)
    if kind in ('identity', 'inplace', 'dictfn'):
        return PriorFn(kind, d, scale, shift)
    from nautilus import Prior
    prior = Prior()
    for j in range(d):
        prior.add_parameter('p%d' % j, dist=(shift[j], shift[j] + scale[j]))
        if j == 0:
            prior.add_parameter('fixed0', dist=2.5)
    prior.add_parameter('link0', dist='p0')
    prior.add_parameter('link1', dist='link0')
    return prior


def pass_dict_for(spec):
    kind = spec.get('prior', 'identity')
    if kind == 'dictfn':
        return True
    if kind == 'Prior':
        return None          # default: True for a Prior object
    if kind == 'PriorArray':
        return False
    return None


@st.composite
def problem_specs(draw, d=None, families=None, blobs=None, priors=None):
    d = d or draw(st.integers(2, 5))
    fam = draw(st.sampled_from(families or FAMILIES))
    spec = dict(d=d, family=fam,
                blob=draw(st.sampled_from(blobs or ['none'])),
                prior=draw(st.sampled_from(priors or ['identity'])))
    p = {}
    if fam in ('gauss', 'slab', 'twomax', 'banana', 'rfunnel', 'funnel',
               'wrap'):
        p['mu'] = [draw(st.sampled_from([0.3, 0.5, 0.62, 0.8]))
                   for _ in range(d)]
        p['sigma'] = [draw(st.sampled_from([0.03, 0.08, 0.2, 0.6]))
                      for _ in range(d)]
    if fam == 'twomax':
        p['mu2'] = [draw(st.sampled_from([0.15, 0.25, 0.85]))
                    for _ in range(d)]
        p['off2'] = draw(st.sampled_from([0.0, -1.0, -3.0]))
    if fam == 'spike':
        p['mu'] = [0.4] * d
        p['sigma'] = [draw(st.sampled_from([0.15, 0.25]))] * d
        p['mu2'] = [draw(st.sampled_from([0.7, 0.55]))] * d
        p['off2'] = draw(st.sampled_from([4.0, 7.0, 10.0]))
    if fam == 'wrap':
        p['mu'][0] = draw(st.sampled_from([0.0, 0.02, 0.97]))
        p['sigma'][0] = draw(st.sampled_from([0.03, 0.08]))
    if fam == 'halfspace':
        p['a'] = draw(st.sampled_from([0.3, 0.6, 0.9]))
        p['k'] = draw(st.sampled_from([2.0, 10.0]))
    if fam == 'stairs':
        p['steps'] = draw(st.sampled_from([[0.5], [0.5, 0.8, 0.95],
                                           [0.2, 0.9, 0.99]]))
    if fam == 'banana':
        p['curv'] = draw(st.sampled_from([3.0, 8.0]))
    if fam == 'slab':
        p['slab_w'] = draw(st.sampled_from([0.005, 0.03]))
    spec['params'] = p
    # extra keyword argument of the likelihood (likelihood_kwargs)
    tilt = draw(st.sampled_from([0.0, 0.0, 1.5, -2.0]))
    if tilt:
        spec['tilt'] = tilt
    if spec['prior'] != 'identity':
        spec['scale'] = [draw(st.sampled_from([1.0, 2.0, 0.5]))
                         for _ in range(d)]
        spec['shift'] = [draw(st.sampled_from([0.0, -1.0, 3.0]))
                         for _ in range(d)]
    return spec
