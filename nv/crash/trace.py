"""strace-based crash-point machinery for C06.

A SIGKILL loses the process's memory but not the page cache, so the file a
kill leaves behind is exactly the result of the file-mutating system calls
issued so far.  We trace a checkpointed run, keep every operation on paths
under the run's private directory, and replay prefixes of that list in a
small model of the directory."""

import os
import re
import subprocess

SYSCALLS = ('openat,open,creat,pwrite64,write,writev,pwritev,pwritev2,'
            'ftruncate,truncate,fallocate,unlink,unlinkat,rename,renameat,'
            'renameat2,link,linkat,symlink,symlinkat,sendfile,copy_file_range,'
            'lseek,dup,dup2,dup3,close,mmap,fcntl,mkdir,mkdirat,rmdir')

_HEX = re.compile(rb'\\x([0-9a-f]{2})')


def unhex(s):
    """strace -xx string body -> bytes."""
    return _HEX.sub(lambda m: bytes([int(m.group(1), 16)]), s.encode()
                    if isinstance(s, str) else s)


def split_args(s):
    """Split a syscall argument list at top-level commas."""
    out, depth, cur, inq, i = [], 0, [], False, 0
    while i < len(s):
        ch = s[i]
        if inq:
            cur.append(ch)
            if ch == '\\':
                cur.append(s[i + 1])
                i += 1
            elif ch == '"':
                inq = False
        elif ch == '"':
            inq = True
            cur.append(ch)
        elif ch in '[{(':
            depth += 1
            cur.append(ch)
        elif ch in ']})':
            depth -= 1
            cur.append(ch)
        elif ch == ',' and depth == 0:
            out.append(''.join(cur).strip())
            cur = []
        else:
            cur.append(ch)
        i += 1
    if cur:
        out.append(''.join(cur).strip())
    return out


def qstr(a):
    """A quoted strace string argument -> bytes (None if not a string)."""
    a = a.strip()
    if a.startswith('"'):
        end = a.rfind('"')
        return unhex(a[1:end])
    return None


_LINE = re.compile(r'^(\d+)\s+(.*)$')
_CALL = re.compile(r'^(\w+)\((.*)\)\s+=\s+(-?\d+|\?)(.*)$', re.S)


def parse(path):
    """Yield (pid, name, args(list of str), ret(int or None)) in order of
    completion."""
    pending = {}
    with open(path, 'r', errors='replace') as f:
        for line in f:
            m = _LINE.match(line.rstrip('\n'))
            if not m:
                continue
            pid, rest = int(m.group(1)), m.group(2)
            if rest.startswith('+++') or rest.startswith('---'):
                continue
            if rest.endswith('<unfinished ...>'):
                pending[pid] = rest[:-len('<unfinished ...>')].rstrip()
                continue
            r = re.match(r'^<\.\.\. (\w+) resumed>(.*)$', rest, re.S)
            if r:
                rest = pending.pop(pid, r.group(1) + '(') + r.group(2)
            c = _CALL.match(rest)
            if not c:
                continue
            name, args, ret = c.group(1), c.group(2), c.group(3)
            yield pid, name, split_args(args), (None if ret == '?' else
                                                int(ret))


class DirModel:
    """Model of the files under one directory prefix."""

    def __init__(self, prefix, cwd):
        self.prefix = os.path.normpath(prefix)
        self.cwd = cwd
        self.files = {}      # path -> bytearray
        self.fds = {}        # (fd) -> [path, offset, append]
        self.unmodelled = []

    def norm(self, p):
        if isinstance(p, bytes):
            p = p.decode('utf-8', 'replace')
        if not os.path.isabs(p):
            p = os.path.join(self.cwd, p)
        return os.path.normpath(p)

    def tracked(self, p):
        return p == self.prefix or p.startswith(self.prefix + os.sep)

    def snapshot(self):
        return {p: bytes(b) for p, b in self.files.items()}

    def _write(self, path, off, data):
        buf = self.files.setdefault(path, bytearray())
        if off > len(buf):
            buf.extend(b'\0' * (off - len(buf)))
        buf[off:off + len(data)] = data

    def apply(self, name, args, ret):
        """Apply one completed syscall.  Returns the path it mutated (a
        tracked path) or None."""
        if ret is None or ret < 0:
            return None
        if name in ('openat', 'open', 'creat'):
            a = args[1:] if name == 'openat' else args
            p = qstr(a[0])
            if p is None:
                return None
            path = self.norm(p)
            flags = a[1] if name != 'creat' and len(a) > 1 else \
                'O_CREAT|O_WRONLY|O_TRUNC'
            self.fds[ret] = [path, 0, 'O_APPEND' in flags]
            if not self.tracked(path):
                return None
            mut = None
            if 'O_CREAT' in flags and path not in self.files:
                self.files[path] = bytearray()
                mut = path
            if 'O_TRUNC' in flags and path in self.files and \
                    len(self.files[path]):
                self.files[path] = bytearray()
                mut = path
            if 'O_TRUNC' in flags and mut is None and path in self.files:
                mut = None
            return mut
        if name == 'close':
            self.fds.pop(int(args[0]), None)
            return None
        if name in ('dup', 'dup2', 'dup3'):
            src = int(args[0])
            if src in self.fds:
                self.fds[ret] = self.fds[src]      # shared offset
            else:
                self.fds.pop(ret, None)
            return None
        if name == 'fcntl':
            if 'F_DUPFD' in args[1]:
                src = int(args[0])
                if src in self.fds:
                    self.fds[ret] = self.fds[src]
            return None
        if name == 'lseek':
            fd = int(args[0])
            if fd in self.fds:
                self.fds[fd][1] = ret
            return None
        if name in ('write', 'pwrite64'):
            fd = int(args[0])
            if fd not in self.fds:
                return None
            path = self.fds[fd][0]
            if not self.tracked(path):
                return None
            data = qstr(args[1])[:ret]
            if name == 'pwrite64':
                off = int(args[3])
            else:
                off = len(self.files.get(path, b'')) if self.fds[fd][2] \
                    else self.fds[fd][1]
                self.fds[fd][1] = off + ret
            self._write(path, off, data)
            return path
        if name in ('writev', 'pwritev', 'pwritev2'):
            fd = int(args[0])
            if fd in self.fds and self.tracked(self.fds[fd][0]):
                data = b''.join(unhex(m) for m in re.findall(
                    r'iov_base="((?:[^"\\]|\\.)*)"', args[1]))[:ret]
                path = self.fds[fd][0]
                if name == 'writev':
                    off = self.fds[fd][1]
                    self.fds[fd][1] = off + ret
                else:
                    off = int(args[3])
                self._write(path, off, data)
                return path
            return None
        if name in ('ftruncate', 'truncate'):
            if name == 'ftruncate':
                fd = int(args[0])
                if fd not in self.fds:
                    return None
                path = self.fds[fd][0]
            else:
                path = self.norm(qstr(args[0]))
            if not self.tracked(path):
                return None
            n = int(args[1])
            buf = self.files.setdefault(path, bytearray())
            if n < len(buf):
                del buf[n:]
            else:
                buf.extend(b'\0' * (n - len(buf)))
            return path
        if name == 'fallocate':
            fd = int(args[0])
            if fd in self.fds and self.tracked(self.fds[fd][0]):
                if args[1].strip() not in ('0',):
                    self.unmodelled.append('fallocate mode ' + args[1])
                    return None
                path = self.fds[fd][0]
                end = int(args[2]) + int(args[3])
                buf = self.files.setdefault(path, bytearray())
                if end > len(buf):
                    buf.extend(b'\0' * (end - len(buf)))
                return path
            return None
        if name in ('unlink', 'unlinkat'):
            p = qstr(args[0] if name == 'unlink' else args[1])
            path = self.norm(p)
            if self.tracked(path) and path in self.files:
                del self.files[path]
                return path
            return None
        if name in ('rename', 'renameat', 'renameat2'):
            if name == 'rename':
                a, b = qstr(args[0]), qstr(args[1])
            else:
                a, b = qstr(args[1]), qstr(args[3])
            a, b = self.norm(a), self.norm(b)
            if self.tracked(a) or self.tracked(b):
                if a in self.files:
                    self.files[b] = self.files.pop(a)
                for ent in self.fds.values():
                    if ent[0] == a:
                        ent[0] = b
                if not self.tracked(b):
                    self.files.pop(b, None)
                return b if self.tracked(b) else a
            return None
        if name in ('link', 'linkat', 'symlink', 'symlinkat'):
            paths = [self.norm(q) for q in (qstr(x) for x in args)
                     if q is not None]
            if any(self.tracked(p) for p in paths):
                self.unmodelled.append('%s on a tracked path' % name)
            return None
        if name in ('sendfile', 'copy_file_range'):
            if name == 'sendfile':
                out_fd, in_fd, offp = int(args[0]), int(args[1]), args[2]
                out_off = None
            else:
                in_fd, offp, out_fd = int(args[0]), args[1], int(args[2])
                out_off = args[3]
            if out_fd not in self.fds or not self.tracked(
                    self.fds[out_fd][0]):
                return None
            if in_fd not in self.fds or self.fds[in_fd][0] not in self.files:
                self.unmodelled.append('%s from an untracked file into a '
                                       'tracked one' % name)
                return None
            src = self.files[self.fds[in_fd][0]]
            if offp.strip() == 'NULL':
                off = self.fds[in_fd][1]
                self.fds[in_fd][1] = off + ret
            else:
                # strace prints "[before] => [after]" for the in/out pointer
                off = int(re.findall(r'\d+', offp.split('=>')[0])[0])
            data = bytes(src[off:off + ret])
            path = self.fds[out_fd][0]
            if out_off is None or out_off.strip() == 'NULL':
                o = self.fds[out_fd][1]
                self.fds[out_fd][1] = o + ret
            else:
                o = int(re.findall(r'\d+', out_off)[0])
            self._write(path, o, data)
            return path
        if name == 'mmap':
            # mmap(addr, len, prot, flags, fd, off)
            try:
                fd = int(args[4])
            except ValueError:
                return None
            if fd in self.fds and self.tracked(self.fds[fd][0]) and \
                    'PROT_WRITE' in args[2] and 'MAP_SHARED' in args[3]:
                self.unmodelled.append('writable shared mapping of %s' %
                                       self.fds[fd][0])
            return None
        if name in ('mkdir', 'mkdirat', 'rmdir'):
            return None
        return None


def run_traced(cmd, trace_path, env=None, inject=None, timeout=600):
    """Run cmd under strace.  inject = (syscall, n): SIGKILL at its n-th
    invocation."""
    argv = ['strace', '-f', '-xx', '-s', '100000000', '-o', trace_path,
            '-e', 'trace=' + SYSCALLS]
    if inject is not None:
        argv += ['-e', 'inject=%s:signal=SIGKILL:when=%d' % inject]
    return subprocess.run(argv + cmd, env=env, capture_output=True,
                          text=True, timeout=timeout)


MARKER = '/nv-marker-does-not-exist/'


def mutation_list(trace_path, prefix, cwd):
    """Replay a trace; return (events, model) where events is the list of
    (index, syscall name, mutated path, marker count j) for every mutating
    syscall on a tracked path, and ``states`` can be produced by replaying
    prefixes with ``replay_prefix``."""
    model = DirModel(prefix, cwd)
    events = []
    calls = []
    j = 0
    for pid, name, args, ret in parse(trace_path):
        if name in ('openat', 'open') and ret is not None and ret < 0:
            a = args[1] if name == 'openat' else args[0]
            p = qstr(a)
            if p is not None and p.decode('utf-8', 'replace').startswith(
                    MARKER):
                j = int(p.decode().rsplit('/', 1)[1])
            continue
        calls.append((name, args, ret))
        path = model.apply(name, args, ret)
        if path is not None:
            events.append(dict(i=len(calls) - 1, name=name, path=path, j=j))
    return calls, events, model


def states_after_each(calls, events, prefix, cwd, want_path):
    """Yield (event, bytes-or-None of want_path, full snapshot fn) after each
    mutating syscall, plus the initial state (event None)."""
    model = DirModel(prefix, cwd)
    nxt = 0
    idx = [e['i'] for e in events]
    pos = 0
    yield None, None, model
    for k, (name, args, ret) in enumerate(calls):
        model.apply(name, args, ret)
        if pos < len(idx) and idx[pos] == k:
            b = model.files.get(want_path)
            yield events[pos], (None if b is None else bytes(b)), model
            pos += 1
