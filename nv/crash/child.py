"""Child process of C06: a checkpointed run that records a snapshot of the
checkpoint file after every completed checkpoint operation and emits a marker
system call (a failing open of a recognisable path) so that the parent can
align the trace with the snapshots.

usage: python -m nv.crash.child <case.json> <workdir> <snapdir> [resume]
"""
import json
import os
import shutil
import sys
import warnings


def main():
    from nv.core import setup_path
    setup_path()
    warnings.simplefilter('ignore')
    from nv import samplerlab as sl
    from nv.crash.trace import MARKER
    case = json.load(open(sys.argv[1]))
    work, snaps = sys.argv[2], sys.argv[3]
    resume = len(sys.argv) > 4 and sys.argv[4] == 'resume'
    os.makedirs(snaps, exist_ok=True)
    count = [0]
    kinds = []

    def on_event(name, lab, args, out):
        if name not in ('write', 'write_shell_update'):
            return
        count[0] += 1
        kinds.append(name)
        shutil.copyfile(lab.filepath, os.path.join(
            snaps, 'S_%d.hdf5' % count[0]))
        try:
            os.close(os.open(MARKER + str(count[0]), os.O_RDONLY))
        except OSError:
            pass

    lab = sl.Lab(case['spec'], case['cfg'], use_file=True, workdir=work,
                 observers=[] if resume else [on_event], log_calls=False,
                 keep_workdir=True, resume_initial=resume)
    cap = case['batches'] * case['cfg']['n_batch']
    lab.run(n_like_max=cap)
    s = lab.sampler
    out = dict(digest=sl.state_digest(s) + ':' + sl.posterior_digest(s),
               n_like=int(s.n_like), n_bounds=len(s.bounds),
               explored=bool(s.explored), n_ops=count[0], kinds=kinds)
    with open(os.path.join(snaps, 'result-resume.json' if resume
                           else 'result.json'), 'w') as f:
        json.dump(out, f)
    lab.close_pools()


if __name__ == '__main__':
    main()
