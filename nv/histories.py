"""Generated run/resume/toggle histories and their executor."""

import numpy as np
from hypothesis import strategies as st

from nv import problems as pr
from nv import samplerlab as sl

ACCESSORS = ['log_z', 'n_eff', 'eta', 'f_live', 'posterior', 'posterior_blobs',
             'posterior_dict', 'occupation', 'evidence', 'ess', 'ase',
             'association']


def call_accessor(s, name):
    import warnings
    with warnings.catch_warnings():
        warnings.simplefilter('ignore')
        if name == 'log_z':
            return s.log_z
        if name == 'n_eff':
            return s.n_eff
        if name == 'eta':
            return s.eta
        if name == 'f_live':
            return s.f_live
        if name == 'posterior':
            return s.posterior()
        if name == 'posterior_blobs':
            return s.posterior(return_blobs=s.blobs is not None)
        if name == 'posterior_dict':
            if not callable(s.prior):
                return s.posterior(return_as_dict=True)
            return s.posterior()
        if name == 'occupation':
            return s.shell_bound_occupation(fractional=False)
        if name == 'evidence':
            return s.evidence()
        if name == 'ess':
            return s.effective_sample_size()
        if name == 'ase':
            return s.asymptotic_sampling_efficiency()
        if name == 'association':
            return s.shell_association(np.full((3, s.n_dim), 0.5))
        if name == 'log_v_live':
            return s.log_v_live
    raise ValueError(name)


@st.composite
def histories(draw, resume=True, toggles=False, timeouts=False,
              accessors=False, limits=False, max_ops=7, finish=True):
    kinds = ['step', 'step', 'step']
    if resume:
        kinds += ['resume', 'resume']
    if toggles:
        kinds += ['toggle', 'toggle']
    if timeouts:
        kinds += ['timeout']
    if accessors:
        kinds += ['accessor']
    if limits:
        kinds += ['limit', 'limit']
    ops = []
    for _ in range(draw(st.integers(1, max_ops))):
        k = draw(st.sampled_from(kinds))
        if k == 'step':
            ops.append(['step', draw(st.sampled_from([1, 1, 2, 3, 5, 8, 13,
                                                      30]))])
        elif k == 'timeout':
            ops.append(['timeout', draw(st.sampled_from([0, 1, 2, 5]))])
        elif k == 'resume':
            ops.append(['resume'])
        elif k == 'toggle':
            ops.append(['toggle', draw(st.booleans())])
        elif k == 'accessor':
            ops.append(['accessor', draw(st.sampled_from(ACCESSORS))])
        elif k == 'limit':
            ops.append(['limit', draw(st.sampled_from(
                [-1000, -1, 0, 1, 7, 50, 333]))])
    if finish:
        ops.append(['finish'])
        if draw(st.booleans()):
            tail = draw(st.sampled_from(['resume', 'toggle', 'step']))
            ops.append({'resume': ['resume'], 'toggle': ['toggle', draw(
                st.booleans())], 'step': ['step', 2]}[tail])
            ops.append(['finish'])
    return ops


@st.composite
def cases(draw, families=None, blobs=None, priors=None, networks=(0, 0, 0, 1),
          pools=('none',), hist_kw=None, cfg_kw=None, d_max=5,
          empty_shell_share=5):
    d = draw(st.integers(2, d_max))
    spec = draw(pr.problem_specs(d=d, families=families, blobs=blobs,
                                 priors=priors))
    n_batch = draw(st.sampled_from([1, 1, 2, 3, 5, 8, 13, 20, 40]))
    cfg = draw(sl.configs(d, networks=networks, pools=pools,
                          batch=st.just(n_batch),
                          max_live=int(min(150, max(4 * d + 4, 14 * n_batch))),
                          **(cfg_kw or {})))
    if empty_shell_share and d <= 3 and draw(
            st.integers(1, empty_shell_share)) == 1:
        # stratum: tiny batches and live sets make shells that are empty at
        # the end of exploration (removed there), usually with the discard
        # view on - the configuration of test_sampler_empty_shells
        # (measured: with n_update=1 a third of the shells end up empty and
        # exploration ends after 35-120 batches / 25-90 bound constructions)
        cfg.update(n_batch=1, n_update=1,
                   n_live=draw(st.integers(4 * d, 4 * d + 2)),
                   f_live=draw(st.sampled_from([0.3, 0.1])),
                   n_points_min=None,
                   discard_exploration=draw(st.sampled_from(
                       [True, True, False])))
    if str(cfg['pool']).startswith(('int', 'both')):
        # an integer likelihood pool evaluates likelihood_worker in worker
        # processes only; with vectorized=True nautilus calls it in the
        # parent (NameError: LIKELIHOOD) - that combination is not usable and
        # outside the domain of every listed property
        cfg['vectorized'] = False
    if cfg['periodic'] is None and spec['family'] == 'wrap':
        cfg['periodic'] = [0]
    if spec['prior'] == 'dictfn' or (spec['blob'] == 'S8' and False):
        pass
    hist = draw(histories(**(hist_kw or {})))
    case = dict(spec=spec, cfg=cfg, history=hist)
    if cfg['n_batch'] == 1 and cfg['n_live'] <= 4 * d + 2 and \
            cfg['n_update'] == 1:
        # bound constructions on ~10 points are cheap: allow enough of them
        # for the exploration phase to end
        case['caps'] = [120, 400]
    return case


def execute(case, res, on_event=None, on_op=None, use_file=True, clock=False,
            log_calls=True, max_bounds=12, max_batches=150):
    """Run a history.  Exceptions raised by run() itself discard the case
    (the state the property talks about was never produced)."""
    if case.get('caps'):
        max_bounds, max_batches = case['caps']
    observers = [on_event] if on_event else []
    lab = sl.Lab(case['spec'], case['cfg'], use_file=use_file,
                 observers=observers, log_calls=log_calls, clock=clock)
    lab.max_bounds, lab.max_batches = max_bounds, max_batches
    lab.stats = dict(resumes=0, resumes_exploring=0, toggles=0, finished=False,
                     ops=0)
    try:
        for op in case['history']:
            name = op[0]
            out = None
            if lab.capped(max_bounds, max_batches) and name in (
                    'step', 'finish', 'timeout', 'limit'):
                continue
            try:
                if name == 'step':
                    k = op[1]
                    for _ in range(k):
                        if lab.capped(max_bounds, max_batches):
                            break
                        out = lab.step(1)
                        if out:
                            break
                elif name == 'timeout':
                    if lab.clock is not None:
                        out = lab.step_timeout(op[1])
                    else:
                        out = lab.step(max(1, op[1]))
                elif name == 'limit':
                    out = lab.run(n_like_max=max(
                        0, lab.sampler.n_like + op[1]))
                elif name == 'finish':
                    while not lab.capped(max_bounds, max_batches):
                        out = lab.step(1)
                        if out:
                            lab.stats['finished'] = True
                            break
                elif name == 'resume':
                    if lab.filepath is None or lab.sampler.n_like == 0:
                        continue
                    lab.stats['resumes'] += 1
                    if not lab.sampler.explored:
                        lab.stats['resumes_exploring'] += 1
                    lab.resume()
                elif name == 'toggle':
                    lab.stats['toggles'] += 1
                    lab.sampler.discard_exploration = bool(op[1])
                elif name == 'accessor':
                    if lab.sampler.n_like > 0:
                        call_accessor(lab.sampler, op[1])
            except AttributeError:
                raise
            except Exception as e:
                import traceback
                tb = traceback.extract_tb(e.__traceback__)
                # who raised?  walk from the innermost frame outwards; the
                # first frame in nautilus or in this harness decides
                inner = None
                for f in reversed(tb):
                    if '/nv/' in f.filename and '/nautilus/' not in \
                            f.filename:
                        break
                    if '/nautilus/' in f.filename:
                        inner = f
                        break
                if inner is None:
                    raise
                where = '%s:%d' % (inner.filename.split('/')[-1],
                                   inner.lineno)
                res.discard = 'run:%s:%s:%s' % (name, type(e).__name__, where)
                lab.failed_op = (name, e)
                return lab
            lab.stats['ops'] += 1
            if on_op:
                on_op(lab, op, out)
    finally:
        lab.close()
    return lab
