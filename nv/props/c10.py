"""C10 - likelihood calls: exact count, one batch per step, budget and support
kept."""

import numpy as np
from hypothesis import strategies as st

from nv.core import Result, hyp_generate
from nv import problems as pr
from nv import samplerlab as sl
from nv import sampler_oracles as so

ID = 'C10'
LEVEL = 'exploration'
TECHNIQUE = ('property-based testing (Hypothesis): generated histories of '
             'run() calls with drawn limits (n_like_max, fake-clock timeouts, '
             'n_shell, n_eff) and resumes; call log of instrumented prior and '
             'likelihood vs n_like, batch sizes, cube support and the '
             'return-value predicate')
RULE = ('case = problem x configuration (n_batch 1..40, scalar / vectorised /'
        ' worker pool, periodic on/off) x history of run() calls, each with '
        'its own limits: n_like_max = current count + offset with offset in '
        '{-1000,-1,0,1,n_batch-1,n_batch,n_batch+1,7,50,333,none}, timeout '
        'after k loop iterations (fake clock; k=0 is a zero timeout), '
        'n_shell 1..5, n_eff 0..500, and resumes from the checkpoint between '
        'calls. Non-trivial = history with >= 2 run() calls of which >= 1 '
        'stopped on a limit, or a resume; distinct by case hash.')
ASSUMPTIONS = [
    'the wall clock is nautilus.sampler.time, replaced by a deterministic '
    'fake clock',
    'the independent n_eff differs from the sampler\'s in the last bits: a '
    'target within 1e-6 relative of it is counted as ambiguous, not checked',
]
REQUIRED_CLASSES = ['limit_stop', 'timeout_stop', 'zero_timeout', 'resumed',
                    'limit_below_count', 'success', 'pool', 'vectorized',
                    'scalar', 'periodic', 'batch=1']


def plan(tier):
    if tier == 'quick':
        return dict(shards=16, budget_s=85, examples=16)
    return dict(shards=16, budget_s=1000, examples=240)


@st.composite
def cases(draw):
    d = draw(st.integers(2, 4))
    spec = draw(pr.problem_specs(
        d=d, families=['gauss', 'twomax', 'banana', 'halfspace', 'stairs',
                       'wrap', 'wrap', 'constant', 'slab'],
        blobs=['none', 'none', 'float'],
        priors=['identity', 'identity', 'inplace', 'dictfn', 'Prior']))
    n_batch = draw(st.sampled_from([1, 1, 2, 3, 5, 8, 13, 20, 40]))
    cfg = draw(sl.configs(d, networks=(0, 0, 0, 1),
                          pools=('none', 'none', 'none', 'int2', 'mp2'),
                          batch=st.just(n_batch), small_update=False,
                          max_live=int(min(120, max(4 * d + 4, 12 * n_batch)))))
    if str(cfg['pool']).startswith('int'):
        cfg['vectorized'] = False
    if spec['family'] == 'wrap' and draw(st.booleans()):
        cfg['periodic'] = [0]
    offs = [-1000, -1, 0, 1, n_batch - 1, n_batch, n_batch + 1, 7, 50, 333,
            None, None]
    hist = []
    for _ in range(draw(st.integers(2, 8))):
        kind = draw(st.sampled_from(['run', 'run', 'run', 'run', 'resume',
                                     'resume', 'toggle']))
        if kind == 'resume':
            hist.append(['resume'])
            continue
        if kind == 'toggle':
            # the public setter, at any boundary (the success predicate is
            # about the view that is switched on)
            hist.append(['toggle', draw(st.booleans())])
            continue
        hist.append(['run', dict(
            off=draw(st.sampled_from(offs)),
            tk=draw(st.sampled_from([None, None, None, 0, 1, 2, 5, 20])),
            n_shell=draw(st.sampled_from([1, 1, 2, 5])),
            n_eff=draw(st.sampled_from([0, 0, 30, 150, 500])))])
    hist.append(['run', dict(off=None, tk=None, n_shell=cfg['n_shell'],
                             n_eff=cfg['n_eff'])])
    return dict(spec=spec, cfg=cfg, history=hist)


def instrument_prior(lab):
    """Log raw unit-cube arguments of a nautilus.Prior object, too."""
    p = lab.prior
    if isinstance(p, pr.PriorFn):
        return p.log
    log = []
    for name in ('unit_to_physical', 'unit_to_dictionary'):
        orig = getattr(p, name)

        def wrapped(points, orig=orig):
            log.append(np.array(points, copy=True))
            return orig(points)
        setattr(p, name, wrapped)
    return log


def run_case(case):
    res = Result()
    spec, cfg = case['spec'], case['cfg']
    split = so.SplitRecord()
    pool = cfg['pool'] != 'none'
    st_ = dict(limit_stop=0, timeout_stop=0, zero_timeout=0, below=0,
               success=0, runs=0, ambiguous=0)
    pr.ROWS.value = 0
    last = dict(rows=0, calls=0)

    def rows_total(lab):
        return int(pr.ROWS.value) if pool else lab.problem.n_rows

    def on_event(name, lab, args, out):
        s = lab.sampler
        split.observe(s)
        if name != 'add_samples':
            return
        res.count('batches')
        rows = rows_total(lab)
        if rows - last['rows'] != s.n_batch:
            res.viol('batch-size', 'rows', 'a step evaluated %d rows, n_batch'
                     '=%d' % (rows - last['rows'], s.n_batch))
        if not pool:
            calls = lab.problem.n_calls
            want = 1 if cfg['vectorized'] else s.n_batch
            if calls - last['calls'] != want:
                res.viol('batch-size', 'calls', '%d likelihood calls in one '
                         'step, expected %d' % (calls - last['calls'], want))
            last['calls'] = calls
        last['rows'] = rows
        # the counter right after the batch (before the checkpoint write)
        if int(s.n_like) != rows:
            res.viol('count', 'after-batch', 'n_like=%d, likelihood saw %d '
                     'rows' % (s.n_like, rows))

    lab = sl.Lab(spec, cfg, use_file=True, observers=[on_event], clock=True)
    plog = instrument_prior(lab)
    n_resumes = 0
    n_toggles = [0]
    try:
        for op in case['history']:
            s = lab.sampler
            if op[0] == 'toggle':
                s.discard_exploration = bool(op[1])
                n_toggles[0] += 1
                continue
            if op[0] == 'resume':
                if s.n_like == 0:
                    continue
                lab.resume()
                n_resumes += 1
                if lab.sampler.n_like != rows_total(lab):
                    res.viol('count', 'after-resume', 'n_like %d after '
                             'resume, %d rows evaluated so far' % (
                                 lab.sampler.n_like, rows_total(lab)))
                continue
            if lab.capped(12, 160):
                break
            a = op[1]
            entry = int(s.n_like)
            rows0 = rows_total(lab)
            kw = dict(n_shell=a['n_shell'], n_eff=a['n_eff'])
            M = np.inf
            if a['off'] is not None:
                M = max(0, entry + a['off'])
                kw['n_like_max'] = M
            else:
                # keep the case small: an otherwise unlimited run is capped
                M = entry + 40 * s.n_batch
                kw['n_like_max'] = M
            if a['tk'] is not None:
                lab.clock.allow(a['tk'])
                kw['timeout'] = 1.0
            try:
                out = lab.run(**kw)
            except AttributeError:
                raise
            except Exception as e:
                res.discard = 'run:%s' % type(e).__name__
                return res
            finally:
                lab.clock.budget = 10 ** 12
            split.observe(s)
            st_['runs'] += 1
            rows = rows_total(lab)
            delta = rows - rows0
            res.count('run-calls')
            # 1. counter == rows passed to the likelihood since the beginning
            if int(s.n_like) != rows:
                res.viol('count', 'after-run', 'n_like=%d, likelihood saw %d '
                         'rows' % (s.n_like, rows))
            # 4. budget
            if entry >= M:
                st_['below'] += 1
                if delta != 0:
                    res.viol('budget', 'started-at-limit', 'n_like=%d >= '
                             'n_like_max=%s on entry, %d rows evaluated' % (
                                 entry, M, delta))
            if not (s.n_like < max(M, entry) + s.n_batch):
                res.viol('budget', 'overshoot', 'n_like=%d, limit %s, batch '
                         '%d' % (s.n_like, M, s.n_batch))
            if a['tk'] is not None:
                if a['tk'] == 0:
                    st_['zero_timeout'] += 1
                if delta > a['tk'] * s.n_batch:
                    res.viol('budget', 'timeout', '%d rows after a timeout '
                             'of %d iterations (batch %d)' % (
                                 delta, a['tk'], s.n_batch))
                if (delta < a['tk'] * s.n_batch and not out and
                        s.n_like < M):
                    res.viol('budget', 'stopped-early', 'only %d rows, limits'
                             ' allowed %d iterations' % (delta, a['tk']))
            if not out and s.n_like >= M:
                st_['limit_stop'] += 1
            if not out and a['tk'] is not None and delta == a['tk'] * \
                    s.n_batch and s.n_like < M:
                st_['timeout_stop'] += 1
            # 5. return value predicate from independent estimators
            r5 = Result()
            Result._latest = res
            est = so.check_estimators(s, r5, 'c10', split,
                                      want_posterior=False)
            # (the predicate is recomputed from the raw stored arrays; it is
            # used even when the sampler's own statistics disagree with them -
            # a success test evaluated on the wrong view is exactly that)
            if est is not None and not est['bad']:
                view_n = est['shell_n']
                ne = est['n_eff']
                if ne is None:
                    ne_ok = None if a['n_eff'] > 0 else True
                elif a['n_eff'] > 0 and abs(ne - a['n_eff']) <= 1e-6 * \
                        a['n_eff']:
                    ne_ok = None
                else:
                    ne_ok = ne >= a['n_eff']
                if ne_ok is None:
                    st_['ambiguous'] += 1
                else:
                    want = bool(s.explored and np.all(
                        view_n >= a['n_shell']) and ne_ok)
                    if bool(out) != want:
                        res.viol('return-value', 'run', 'returned %r; '
                                 'explored=%r min shell count=%r (need %d) '
                                 'n_eff=%r (need %r)' % (
                                     out, bool(s.explored),
                                     int(np.min(view_n)) if len(view_n)
                                     else None, a['n_shell'], ne, a['n_eff']))
                    if not want and not out and s.n_like < M and (
                            a['tk'] is None):
                        res.viol('return-value', 'stopped-without-limit',
                                 'run() returned False below every limit')
            if out:
                st_['success'] += 1
        # 3. support
        n_args = 0
        for u in plog:
            u = np.asarray(u)
            n_args += u.shape[0] if u.ndim > 1 else 1
            if not np.all((u >= 0) & (u < 1)):
                res.viol('support', 'prior-argument', 'prior received %r' % (
                    u[~((u >= 0) & (u < 1))][:3].tolist(),))
                break
        res.count('prior-arguments', n_args)
    finally:
        lab.close()
    res.cls('limit_stop', st_['limit_stop'] > 0)
    res.cls('timeout_stop', st_['timeout_stop'] > 0)
    res.cls('zero_timeout', st_['zero_timeout'] > 0)
    res.cls('limit_below_count', st_['below'] > 0)
    res.cls('resumed', n_resumes > 0)
    res.cls('toggled', n_toggles[0] > 0)
    res.cls('success', st_['success'] > 0)
    res.cls('pool', pool)
    res.cls('vectorized', cfg['vectorized'])
    res.cls('scalar', not cfg['vectorized'])
    res.cls('periodic', cfg['periodic'] is not None)
    res.cls('batch=1', cfg['n_batch'] == 1)
    res.cls('ambiguous_n_eff', st_['ambiguous'] > 0)
    res.nontrivial = bool((st_['runs'] >= 2 and (
        st_['limit_stop'] + st_['timeout_stop'] + st_['below'] +
        st_['zero_timeout'] > 0)) or n_resumes > 0)
    return res


def replay(case):
    return run_case(case)


def shard(ctx, tier, i, n):
    hyp_generate(ctx, cases(), run_case, plan(tier)['examples'])
