"""C01 - every stored sample belongs to exactly one shell: its own."""

import numpy as np

from nv.core import Result, hyp_generate
from nv import histories as hs
from nv import sampler_oracles as so

ID = 'C01'
LEVEL = 'exploration'
TECHNIQUE = ('property-based testing (Hypothesis): generated likelihoods x '
             'sampler configurations x run/resume histories, observed after '
             'every bound insertion, batch and checkpoint write; partition '
             'invariant recomputed from the public contains()')
RULE = ('case = (likelihood family of 10 [Gaussian, max of two modes, banana,'
        ' funnel (non-nested), rational funnel, -inf half space, staircase '
        'plateaus, constant, wrap-around peak, -inf slab] with drawn '
        'parameters, d=2..5; configuration n_live 4d..150, n_batch 1..40, '
        'n_update, n_points_min, split_threshold 1/10/100, enlargement, 0..1 '
        'tiny networks, periodic subset, sampler pool none/2, blobs; history '
        'of step(k) / resume-from-file / finish, checkpoint file always on). '
        'The invariant is evaluated on ALL stored points at every '
        'add_bound / add_samples / write / write_shell_update return and '
        'after every operation. Non-trivial = a bound insertion moved >= 1 '
        'point to the transfer set and >= 1 candidate re-entered, or a '
        'proposal was rejected because a later bound contains it; distinct '
        'by case hash.')
ASSUMPTIONS = [
    'membership is evaluated with the bound objects\' own contains()',
    'cases are capped at 12 bound constructions / 150 batches, d <= 5',
]
REQUIRED_CLASSES = ['transfer_reentered', 'later_bound_rejection',
                    'resume_exploring', 'multi_ellipsoid', 'networks',
                    'periodic', 'explored', 'funnel', 'sampler_pool']


def plan(tier):
    if tier == 'quick':
        return dict(shards=16, budget_s=70, examples=14)
    return dict(shards=16, budget_s=1000, examples=220)


def strategy():
    return hs.cases(
        families=['gauss', 'twomax', 'banana', 'banana', 'funnel', 'funnel',
                  'rfunnel', 'halfspace', 'stairs', 'constant', 'wrap',
                  'wrap', 'slab', 'spike'],
        blobs=['none', 'none', 'float'], priors=['identity'],
        networks=(0, 0, 0, 1), pools=('none', 'none', 'none', 'spool2'),
        hist_kw=dict(resume=True, max_ops=6))


def run_case(case):
    res = Result()
    st = dict(moved=0, reentered=0, rejected_later=0, multi=False,
              events=0, n_bounds=0)

    def on_event(name, lab, args, out):
        s = lab.sampler
        st['events'] += 1
        if name == 'add_bound' and out and len(s.bounds) > 1:
            st['moved'] += int(np.sum(np.asarray(s.shell_t) >= 0))
            ob = getattr(s.bounds[-1], 'outer_bound', None)
            if ob is not None and len(ob.bounds) > 1:
                st['multi'] = True
        if name == 'add_samples':
            st['reentered'] = max(st['reentered'], int(np.sum(
                np.asarray(s.shell_t) == -1)) if len(s.bounds) > 1 else 0)
            sh = args[0] if args else -1
            sh = sh if sh >= 0 else len(s.bounds) - 1
            if sh < len(s.bounds) - 1:
                # proposals in bound sh that were thrown away because a later
                # bound contains them
                pass
        # with dozens of bounds (tiny-batch stratum) the full predicate costs
        # O(shells^2) contains() calls: evaluate it at every bound insertion,
        # every checkpoint write and every (n_bounds/6)-th batch
        nb = len(s.bounds)
        if not (nb > 12 and name == 'add_samples' and
                st['events'] % max(1, nb // 6) != 0):
            so.check_partition(s, res, name)
        # "whenever a checkpoint is written": what a new process would load
        # from the file right now satisfies the invariant as well
        if name in ('write', 'write_shell_update'):
            st['writes'] = st.get('writes', 0) + 1
            if st['writes'] % 6 == 1 and st.get('peeks', 0) < 12 and (
                    nb <= 12 or name == 'write'):
                st['peeks'] = st.get('peeks', 0) + 1
                try:
                    s2 = lab.peek()
                except AttributeError:
                    raise
                except Exception as e:
                    res.viol('checkpoint-unloadable', name, repr(e))
                    return
                so.check_partition(s2, res, 'file-after-' + name)

    def on_op(lab, op, out):
        s = lab.sampler
        if s.n_like > 0:
            so.check_partition(s, res, 'after-' + op[0])
        st['n_bounds'] = len(s.bounds)
        # rejected-because-in-later-bound: proposals exceed kept rows in a
        # non-final shell
        for i in range(len(s.bounds) - 1):
            if s.shell_n_sample[i] > len(s.points[i]):
                st['rejected_later'] += 1
                break

    try:
        lab = hs.execute(case, res, on_event=on_event, on_op=on_op,
                         use_file=True)
    except AttributeError:
        raise
    s = lab.sampler
    res.cls('transfer_reentered', st['moved'] > 0 and st['reentered'] > 0)
    res.cls('later_bound_rejection', st['rejected_later'] > 0)
    res.cls('resume_exploring', lab.stats['resumes_exploring'] > 0)
    res.cls('resumed', lab.stats['resumes'] > 0)
    res.cls('multi_ellipsoid', st['multi'])
    res.cls('networks', case['cfg']['n_networks'] > 0)
    res.cls('periodic', case['cfg']['periodic'] is not None)
    res.cls('explored', bool(s.explored))
    res.cls('finished', lab.stats['finished'])
    res.cls('funnel', case['spec']['family'] in ('funnel', 'rfunnel',
                                                 'banana'))
    res.cls('sampler_pool', str(case['cfg']['pool']).startswith('spool'))
    res.cls('bounds>=3', st['n_bounds'] >= 3)
    res.count('observation-instants', st['events'])
    res.count('checkpoint-loads', st.get('peeks', 0))
    res.nontrivial = bool((st['moved'] > 0 and st['reentered'] > 0) or
                          st['rejected_later'] > 0)
    return res


def replay(case):
    return run_case(case)


def shard(ctx, tier, i, n):
    hyp_generate(ctx, strategy(), run_case, plan(tier)['examples'],
                 case_timeout=150)
