"""C07 - bounds are sound: samples lie inside, construction points enclosed."""

import numpy as np

from nv.core import Result, hyp_generate
from nv import bounds_lab as bl

ID = 'C07'
LEVEL = 'exploration'
TECHNIQUE = ('property-based testing (Hypothesis): generated point sets x '
             'bound classes x options x split/trim/sample histories x pools '
             'against the validity predicates contains(sample()), cube '
             'membership, enclosure of construction points, neural/nautilus '
             'inside outer bound')
RULE = ('recipe = bound class {UnitCube, Ellipsoid, Mixture, Union, Neural, '
        'Nautilus} x point set (d=1..8; Gaussian with axis ratio up to 1e3, '
        '2..4 clusters, arc, banana, pushed against faces/corners with rows '
        'exactly on 0.0 and nextafter(1,0), wrapped around the boundary, '
        'uniform, a few duplicated rows) x enlargement 1.001..3 x union '
        'history over {split, split(no overlap), trim, sample, log_v} '
        '(checked after every step) x periodic subsets x 0..2 networks x '
        'serial / NautilusPool(2..3) x read-back copy. Non-trivial = bound '
        'with >=2 members, or a periodic shift, or networks, or a '
        'construction set touching a face; distinct by recipe hash.')
ASSUMPTIONS = [
    'random variates come from the real PCG64 stream (a radius variate of '
    'exactly 1-2^-53 landing on the surface by rounding is a 1e-16 event '
    'and is not forced)',
    'construction sets are in general position',
    'for axis ratios above 1e3 (a rotated sheet of ratio 3e7 is generated) '
    'only the sample()/contains() clauses are checked: the enclosure margin '
    'is below the rounding of the inverse at condition number 1e15',
]
REQUIRED_CLASSES = ['Union', 'Nautilus', 'Neural', 'Ellipsoid', 'Mixture',
                    'UnitCube', 'members>=2', 'periodic', 'networks',
                    'touches_face', 'pool', 'readback']

_POOL = {}


def plan(tier):
    if tier == 'quick':
        return dict(shards=16, budget_s=70, examples=80)
    return dict(shards=16, budget_s=850, examples=1100)


def get_pool(n):
    from nautilus.pool import NautilusPool
    if n and n not in _POOL:
        _POOL[n] = NautilusPool(n)
    return _POOL.get(n)


def close_pools():
    for p in _POOL.values():
        try:
            p.pool.terminate()
            p.pool.join()
        except Exception:
            pass
    _POOL.clear()


def in_cube(x):
    return np.all((x >= 0) & (x < 1), axis=-1)


def check_samples(res, tag, b, ns, unit, pool=None, cube_dims=None):
    for n in ns:
        try:
            s = b.sample(n, pool=pool) if pool is not None else b.sample(n)
        except Exception as e:
            res.viol('sample-raises', '%s:%s' % (tag, type(e).__name__),
                     repr(e))
            return
        s = np.asarray(s)
        res.count('samples', len(s))
        if s.shape != (n, b.n_dim):
            res.viol('sample-shape', tag, 'asked %d got %r' % (n, s.shape))
            return
        try:
            c = np.asarray(b.contains(s))
        except Exception as e:
            res.viol('contains-raises', '%s:%s' % (tag, type(e).__name__),
                     repr(e))
            return
        if not np.all(c):
            j = int(np.flatnonzero(~c)[0])
            res.viol('sample-not-contained', tag, '%d of %d samples fail '
                     'contains(); first %r' % (int(np.sum(~c)), n,
                                               s[j].tolist()))
        if unit and not np.all(in_cube(s)):
            j = int(np.flatnonzero(~in_cube(s))[0])
            res.viol('sample-outside-cube', tag, 'sample %r' % (
                s[j].tolist(),))
        if cube_dims is not None and np.any(cube_dims):
            if not np.all(in_cube(s[:, cube_dims])):
                res.viol('sample-outside-cube', tag + '-cubedims', '')


EXTREME = [False]


def check_union_members(res, tag, u, unit, pts_all):
    """Every member encloses the rows it was built from."""
    if EXTREME[0]:
        # axis ratio 3e7: the enclosure margin (enlargement - 1) is below the
        # rounding of the matrix inverse used for the rescale (cond 1e15);
        # only the sample/contains clauses are meaningful there
        return
    for i, (m, p) in enumerate(zip(u.bounds, u.points_bounds)):
        dc = getattr(m, 'dim_cube', None)
        if dc is not None and np.any(dc):
            # a mixture member is restricted to the cube along these axes
            p = p[in_cube(p[:, dc])]
        c = np.asarray(m.contains(p))
        res.count('construction-points', len(p))
        if not np.all(c):
            res.viol('construction-point-outside', tag,
                     'member %d of %d misses %d of its %d points' % (
                         i, len(u.bounds), int(np.sum(~c)), len(p)))
            return
    allp = np.vstack(u.points_bounds)
    sel = np.ones(len(allp), dtype=bool)
    if unit or any(getattr(m, 'dim_cube', None) is not None
                   for m in u.bounds):
        sel = in_cube(allp)
    c = np.asarray(u.contains(allp[sel]))
    if not np.all(c):
        res.viol('construction-point-outside', tag + '-union',
                 '%d rows not in the union' % int(np.sum(~c)))


def run_case(r):
    import h5py
    res = Result()
    cls = r['cls']
    pool = get_pool(r.get('pool', 0))
    r0 = dict(r)
    ops = r0.pop('ops', []) if cls == 'Union' else []
    if cls == 'Union':
        r0['ops'] = []
    try:
        built = bl.build(r0, pool=pool)
    except Exception as e:
        res.discard = 'build:%s' % type(e).__name__
        return res
    b = built.bound
    pts = built.points
    EXTREME[0] = r['pts'].get('ratio', 1.0) > 1e3
    res.cls('extreme_ratio', EXTREME[0])
    res.cls(cls)
    touches = bool(np.any((pts == 0.0) | (pts >= bl.gens.ONE_M)) or
                   r['pts']['family'] in ('face',))
    res.cls('touches_face', touches)
    res.cls('networks', r.get('n_networks', 0) > 0)
    res.cls('periodic', bool(r.get('periodic')))
    res.cls('pool', pool is not None)
    res.cls('d=1', built.d == 1)
    ns = r.get('ns', [137, 1000, 7])
    members = 1

    if cls in ('Ellipsoid', 'Mixture'):
        sel = np.ones(len(pts), dtype=bool)
        if cls == 'Mixture' and np.any(b.dim_cube):
            sel = in_cube(pts[:, b.dim_cube])
        c = np.asarray(b.contains(pts[sel]))
        res.count('construction-points', int(np.sum(sel)))
        if not np.all(c) and not EXTREME[0]:
            res.viol('construction-point-outside', cls,
                     '%d of %d construction points outside (enlarge %g)' % (
                         int(np.sum(~c)), len(c), r['enlarge']))
        check_samples(res, cls, b, ns, False,
                      cube_dims=getattr(b, 'dim_cube', None))
    elif cls == 'UnitCube':
        check_samples(res, cls, b, ns, True)
    elif cls == 'Union':
        check_union_members(res, 'Union:built', b, r['unit'], pts)
        for k, op in enumerate(ops):
            try:
                out = bl.apply_union_op(b, op)
            except Exception as e:
                res.discard = 'op:%s:%s' % (op, type(e).__name__)
                return res
            if op.startswith('split') and out:
                check_union_members(res, 'Union:after-split', b, r['unit'],
                                    pts)
            elif op.startswith('trim') and out:
                check_union_members(res, 'Union:after-trim', b, r['unit'],
                                    pts)
        members = len(b.bounds)
        check_samples(res, 'Union:%s:unit=%s' % (r['member'], r['unit']), b,
                      ns, r['unit'])
    elif cls == 'Neural':
        P = bl.probes(built, n=600, seed=r['seed'] % 997)
        c = np.asarray(b.contains(P))
        o = np.asarray(b.outer_bound.contains(P))
        res.count('probes', len(P))
        if np.any(c & ~o):
            res.viol('neural-outside-outer', 'Neural', '%d probes accepted '
                     'outside the outer ellipsoid' % int(np.sum(c & ~o)))
    elif cls == 'Nautilus':
        if built.acceptance < 0.02:
            res.discard = 'low-acceptance'
            return res
        members = len(b.outer_bound.bounds)
        res.cls('multi_neural', len(b.neural_bounds) > 1)
        check_samples(res, 'Nautilus', b, ns, True, pool=pool)
        P = bl.probes(built, n=600, seed=r['seed'] % 997)
        c = np.asarray(b.contains(P))
        Ps = P if b.shift is None else b.shift.transform(P)
        o = np.asarray(b.outer_bound.contains(Ps))
        e = np.any([nbd.outer_bound.contains(Ps) for nbd in b.neural_bounds],
                   axis=0)
        res.count('probes', len(P))
        if np.any(c & ~o):
            res.viol('nautilus-outside-outer', 'union', '%d probes' % int(
                np.sum(c & ~o)))
        if np.any(c & ~e):
            res.viol('nautilus-outside-outer', 'neural-ellipsoid',
                     '%d probes' % int(np.sum(c & ~e)))
        # outer union members enclose their rows (in the shifted frame)
        check_union_members(res, 'Nautilus:outer', b.outer_bound, True, pts)
    res.cls('members>=2', members >= 2)

    # read-back copy is sound as well
    if cls in ('Union', 'Nautilus') and not res.violations:
        res.cls('readback')
        R = {'Union': None, 'Nautilus': None}
        from nautilus.bounds import Union, NautilusBound
        R = Union if cls == 'Union' else NautilusBound
        f = h5py.File('c07-%d.h5' % id(res), 'w', driver='core',
                      backing_store=False)
        try:
            g = f.create_group('b')
            b.write(g)
            try:
                c2 = R.read(g, rng=np.random.default_rng(r['seed'] + 7))
            except Exception as e:
                res.discard = 'readback:%s' % type(e).__name__
                return res
            check_samples(res, cls + ':readback', c2, ns[:2],
                          built.unit, pool=pool)
        finally:
            f.close()

    res.nontrivial = bool(members >= 2 or r.get('periodic') or
                          r.get('n_networks', 0) > 0 or touches)
    return res


def replay(case):
    try:
        return run_case(case)
    finally:
        close_pools()


def shard(ctx, tier, i, n):
    p = plan(tier)
    try:
        hyp_generate(ctx, bl.recipes(
            classes=['UnitCube', 'Ellipsoid', 'Ellipsoid', 'Mixture',
                     'Mixture', 'Union', 'Union', 'Union', 'Neural',
                     'Nautilus', 'Nautilus', 'Nautilus'],
            pools=(0, 0, 0, 0, 2, 3), max_ops=5, extreme_ratio=True),
            run_case, p['examples'])
    finally:
        close_pools()
