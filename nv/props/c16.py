"""C16 - periodic phase shift is a bijection of the unit cube."""

import numpy as np
from hypothesis import strategies as st

from nv.core import Result, hyp_generate

ID = 'C16'
LEVEL = 'exploration'
TECHNIQUE = ('property-based testing (Hypothesis): generated construction '
             'sets x periodic index sets x boundary-directed probe '
             'coordinates against a range / identity / inverse / gap oracle')
RULE = ('case = (dimension 1..6, periodic index set, construction set: '
        'explicit rows drawn by Hypothesis or a seeded family [uniform, '
        'cluster wrapped around the boundary, regular grid with tied gaps, '
        'two clusters, single point], extra probe values); for every case '
        'all boundary-directed probes are evaluated (wrap position '
        '(c-0.5) mod 1 and its +-1..4 ulp neighbours, 0, smallest '
        'subnormal/normal, 1e-17, nextafter(1,0), centre +-ulp, 0.5). '
        'A case is non-trivial when at least one probe image lies within '
        '4 ulp of 0 or 1 (the wrap was really exercised); distinct by hash '
        'of the case.')
ASSUMPTIONS = [
    'inputs are 2-D arrays of float64 in [0,1) (what every caller passes)',
    'inverse is required only up to 4 ulp (2**-52 each) in circular distance',
]
REQUIRED_CLASSES = ['explicit', 'seeded', 'd>=2', 'partial_periodic']

ULP = 2.0 ** -52
ONE_M = float(np.nextafter(1.0, 0.0))


def plan(tier):
    if tier == 'quick':
        return dict(shards=16, budget_s=25, examples=500)
    return dict(shards=16, budget_s=280, examples=12000)


# ---------------------------------------------------------------- generators

unit = st.floats(min_value=0.0, max_value=1.0, exclude_max=True,
                 allow_nan=False, allow_infinity=False)


@st.composite
def cases(draw):
    d = draw(st.integers(1, 6))
    idx = list(range(d))
    periodic = draw(st.lists(st.sampled_from(idx), min_size=1, max_size=d,
                             unique=True))
    if draw(st.booleans()):
        periodic = sorted(periodic)
    if draw(st.integers(0, 2)) == 0:
        n = draw(st.integers(1, 6))
        rows = draw(st.lists(st.lists(unit, min_size=d, max_size=d),
                             min_size=n, max_size=n))
        cons = dict(kind='explicit', rows=rows)
    else:
        fam = draw(st.sampled_from(['uniform', 'wrapcluster', 'grid',
                                    'twoclusters', 'single']))
        cons = dict(kind='seeded', family=fam,
                    n=draw(st.integers(1, 200)),
                    seed=draw(st.integers(0, 2 ** 32 - 1)),
                    c0=draw(unit), w=draw(st.sampled_from(
                        [1e-6, 1e-3, 0.01, 0.05, 0.2])),
                    m=draw(st.integers(1, 12)))
    extra = draw(st.lists(unit, max_size=6))
    return dict(d=d, periodic=periodic, cons=cons, extra=extra)


def wrap01(x):
    x = np.mod(x, 1.0)
    return np.where(x >= 1.0, 0.0, x)


def construction(case):
    d, c = case['d'], case['cons']
    if c['kind'] == 'explicit':
        return np.array(c['rows'], dtype=float).reshape(-1, d)
    rng = np.random.default_rng(c['seed'])
    n, fam = c['n'], c['family']
    if fam == 'uniform':
        return rng.random((n, d))
    if fam == 'wrapcluster':
        return wrap01(c['c0'] + c['w'] * rng.normal(size=(n, d)))
    if fam == 'grid':
        m = c['m']
        return wrap01(rng.integers(0, m, size=(n, d)) / m + c['c0'])
    if fam == 'twoclusters':
        lab = rng.integers(0, 2, size=(n, 1))
        ctr = np.where(lab == 0, c['c0'], c['c0'] + 0.37)
        return wrap01(ctr + c['w'] * rng.normal(size=(n, d)))
    if fam == 'single':
        return rng.random((1, d))
    raise ValueError(fam)


def near(v, ks=(1, 2, 3, 4)):
    out = [v]
    lo = hi = v
    for _ in range(max(ks)):
        lo = float(np.nextafter(lo, -np.inf))
        hi = float(np.nextafter(hi, np.inf))
        out += [lo, hi]
    return out


def probe_values(center, extra):
    wrap = float((center - 0.5) % 1.0)
    vals = near(wrap) + near(float(center), ks=(1,)) + [
        0.0, 5e-324, 2.2250738585072014e-308, 1e-17, 1e-9, 0.5, ONE_M,
        float(np.nextafter(ONE_M, 0.0)), 0.25, 0.75]
    vals += list(extra)
    return [v for v in vals if 0.0 <= v < 1.0]


def circ(a, b):
    d = np.abs(a - b)
    return np.minimum(d, np.abs(1.0 - d))


# -------------------------------------------------------------------- oracle

def run_case(case):
    from nautilus.bounds import PhaseShift
    res = Result()
    d = case['d']
    periodic = np.array(case['periodic'], dtype=int)
    pts = construction(case)
    res.cls(case['cons']['kind'])
    res.cls('d>=2', d >= 2)
    res.cls('partial_periodic', len(periodic) < d)
    res.cls('n=1', len(pts) == 1)
    try:
        shift = PhaseShift.compute(pts, periodic)
        centers = np.array(shift.centers, dtype=float)
    except Exception as e:  # the constrained object does not exist
        res.viol('compute-raises', type(e).__name__, repr(e))
        return res
    if not np.all((centers >= 0) & (centers < 1) | True):
        pass

    # probe matrix: one row per probe value, every periodic column set to it;
    # non periodic columns keep a base pattern.
    base = np.linspace(0.05, 0.95, d)
    rows = []
    for i, dim in enumerate(periodic):
        for v in probe_values(centers[i], case['extra']):
            r = base.copy()
            r[dim] = v
            rows.append(r)
    # all periodic coords simultaneously at their own wrap position
    r = base.copy()
    for i, dim in enumerate(periodic):
        r[dim] = float((centers[i] - 0.5) % 1.0)
    rows.append(r)
    X = np.array(rows)
    X0 = X.copy()
    boundary_hit = False
    for inverse, name in [(False, 'transform'), (True, 'inverse')]:
        try:
            T = shift.transform(X, inverse=inverse)
        except Exception as e:
            res.viol('transform-raises', name, repr(e))
            continue
        res.count('range', T.size)
        if not np.array_equal(X, X0):
            res.viol('input-mutated', name, 'transform modified its argument')
            X = X0.copy()
        bad = ~((T >= 0) & (T < 1))
        if np.any(bad):
            j = np.argwhere(bad)[0]
            res.viol('range', name,
                     'x=%r -> %r (centre %r, dim %d)' % (
                         float(X[j[0], j[1]]), float(T[j[0], j[1]]),
                         centers.tolist(), int(j[1])))
        nonp = np.setdiff1d(np.arange(d), periodic)
        if len(nonp) and not np.array_equal(T[:, nonp], X[:, nonp]):
            res.viol('nonperiodic-changed', name, 'non-periodic coordinate '
                     'changed')
        if T.shape != X.shape:
            res.viol('shape', name, '%r -> %r' % (X.shape, T.shape))
            continue
        Tp = T[:, periodic]
        if np.any((Tp <= 4 * ULP) | (Tp >= 1 - 4 * ULP)):
            boundary_hit = True
        # round trip (only from images that are themselves inside the cube,
        # which is the domain of the other direction)
        ok = np.all((T >= 0) & (T < 1), axis=1)
        if np.any(ok):
            try:
                R = shift.transform(T[ok], inverse=not inverse)
            except Exception as e:
                res.viol('transform-raises', name + '-roundtrip', repr(e))
                continue
            res.count('roundtrip', R.size)
            err = circ(R[:, periodic], X[ok][:, periodic])
            if np.any(err > 4 * ULP):
                j = np.argwhere(err > 4 * ULP)[0]
                res.viol('roundtrip', name,
                         'x=%r back=%r err=%g' % (
                             float(X[ok][j[0], periodic[j[1]]]),
                             float(R[j[0], periodic[j[1]]]),
                             float(err[j[0], j[1]])))
            if np.any(~((R >= 0) & (R < 1))):
                res.viol('range', name + '-roundtrip',
                         'round trip left the cube')
            if len(nonp) and not np.array_equal(R[:, nonp], X[ok][:, nonp]):
                res.viol('nonperiodic-changed', name + '-roundtrip', '')

    # the construction set: largest empty gap lies across the boundary
    try:
        Tc = shift.transform(pts)
    except Exception as e:
        res.viol('transform-raises', 'construction', repr(e))
        return res
    for i, dim in enumerate(periodic):
        x = np.sort(pts[:, dim])
        gaps = np.append(np.diff(x), x[0] + 1.0 - x[-1])
        G = float(np.max(gaps))
        t = Tc[:, dim]
        res.count('gap', 1)
        if not np.all((t >= 0) & (t < 1)):
            res.viol('range', 'construction', 'construction image %r' % (
                float(t[~((t >= 0) & (t < 1))][0])))
            continue
        span = float(np.max(t) - np.min(t))
        if span > 1.0 - G + 1e-12:
            res.viol('gap', 'span', 'span %.17g > 1-G = %.17g (n=%d)' % (
                span, 1.0 - G, len(x)))
        mid = 0.5 * float(np.max(t) + np.min(t))
        if abs(mid - 0.5) > 1e-12:
            res.viol('gap', 'centre', 'occupied arc centred on %.17g' % mid)
    res.nontrivial = boundary_hit
    res.cls('boundary_image', boundary_hit)
    return res


def replay(case):
    return run_case(case)


def shard(ctx, tier, i, n):
    hyp_generate(ctx, cases(), run_case, plan(tier)['examples'])
