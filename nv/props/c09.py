"""C09 - writing and reading back any bound preserves its behaviour."""

import numpy as np

from nv.core import Result, hyp_generate
from nv import bounds_lab as bl
from nv.oracles import h5_logical, h5_diff

ID = 'C09'
LEVEL = 'exploration'
TECHNIQUE = ('property-based testing (Hypothesis): generated bound recipes '
             'and pre-write operation histories; round-trip differential '
             'under a cloned random generator (contains / log_v / sample '
             'stream bit-identical; update+read == write+read)')
RULE = ('recipe = bound class {UnitCube, Ellipsoid, UnitCubeEllipsoidMixture,'
        ' Union(member class, unit T/F, n_points_min), NeuralBound(0..2 tiny '
        'networks), NautilusBound(periodic subset, split_threshold 1/100, '
        '0..2 networks, serial or pool)} x generated point set (d=1..8, 7 '
        'families) x enlargement x pre-write history over {split, '
        'split(no overlap), trim, sample, log_v}; after the round trip the '
        'sample sizes cross the 1000-point cache boundary. Non-trivial = '
        'state with >=1 successful split, or a non-empty proposal cache at '
        'write time, or unit=False, or a periodic shift, or networks; '
        'distinct by hash of the recipe.')
ASSUMPTIONS = [
    'the reader is given a generator in the same state as the writer\'s '
    '(as the property states); HDF5 in-memory files behave like on-disk '
    'ones',
]
REQUIRED_CLASSES = ['Union', 'Nautilus', 'Neural', 'Ellipsoid', 'Mixture',
                    'UnitCube', 'unit_false', 'periodic', 'networks',
                    'split_done', 'cache_nonempty', 'updated']

_POOL = {}


def plan(tier):
    if tier == 'quick':
        return dict(shards=16, budget_s=70, examples=70)
    return dict(shards=16, budget_s=800, examples=900)


def get_pool(n):
    from nautilus.pool import NautilusPool
    if n and n not in _POOL:
        _POOL[n] = NautilusPool(n)
    return _POOL.get(n)


def close_pools():
    for p in _POOL.values():
        try:
            p.pool.terminate()
            p.pool.join()
        except Exception:
            pass
    _POOL.clear()


def reader(cls_name):
    from nautilus import bounds as nb
    return {'UnitCube': nb.UnitCube, 'Ellipsoid': nb.Ellipsoid,
            'Mixture': nb.UnitCubeEllipsoidMixture, 'Union': nb.Union,
            'Neural': nb.NeuralBound, 'Nautilus': nb.NautilusBound}[cls_name]


def do_sample(b, n, pool):
    if pool is not None:
        return b.sample(n, pool=pool)
    return b.sample(n)


def lockstep(res, tag, objs, rngs, P, ns, pool, has_sampler=True):
    """Compare objs[0] (live) with the read-back objects in lock-step."""
    ref = None
    for j, o in enumerate(objs):
        try:
            c = np.asarray(o.contains(P))
        except Exception as e:
            res.viol('contains-raises', '%s:%s' % (tag, type(e).__name__),
                     '%s object %d: %r' % (tag, j, e))
            return False
        if j == 0:
            ref = c
        elif not np.array_equal(ref, c):
            res.viol('contains-differs', tag, '%d of %d probes differ' % (
                int(np.sum(ref != c)), len(P)))
            return False
    res.count('contains', len(P) * (len(objs) - 1))
    if not has_sampler:
        return True
    vals = []
    for j, o in enumerate(objs):
        try:
            vals.append(o.log_v)
        except Exception as e:
            res.viol('log_v-raises', '%s:%s' % (tag, type(e).__name__),
                     '%s object %d: %r' % (tag, j, e))
            return False
    for v in vals[1:]:
        if not (np.float64(v).tobytes() == np.float64(vals[0]).tobytes()):
            res.viol('log_v-differs', tag, '%r vs %r' % (vals[0], v))
            return False
    for n in ns:
        if n == -1:
            # drain the proposal cache exactly (boundary of the refill logic)
            n = max(1, len(getattr(objs[0], 'points', [])))
        outs = []
        for j, o in enumerate(objs):
            try:
                outs.append(np.asarray(do_sample(o, n, pool)))
            except Exception as e:
                res.viol('sample-raises', '%s:%s' % (tag, type(e).__name__),
                         '%s object %d sample(%d): %r' % (tag, j, n, e))
                return False
        for a in outs[1:]:
            if a.shape != outs[0].shape or not np.array_equal(a, outs[0]):
                res.viol('sample-stream-differs', tag,
                         'sample(%d) differs after round trip' % n)
                return False
        res.count('sample-calls', len(objs) - 1)
    k0 = bl.rng_state_key(rngs[0])
    for r in rngs[1:]:
        if bl.rng_state_key(r) != k0:
            res.viol('rng-state-differs', tag, 'generators ended in '
                     'different states')
            return False
    # volumes again after sampling
    v0 = objs[0].log_v
    for o in objs[1:]:
        if np.float64(o.log_v).tobytes() != np.float64(v0).tobytes():
            res.viol('log_v-differs', tag + '-after-sampling', '')
            return False
    return True


def run_case(r):
    import h5py
    res = Result()
    pool = get_pool(r.get('pool', 0))
    try:
        built = bl.build(r, pool=pool)
    except Exception as e:
        res.discard = 'build:%s' % type(e).__name__
        return res
    cls = r['cls']
    b, rng = built.bound, built.rng
    if cls == 'Nautilus' and built.acceptance < 0.02:
        res.discard = 'low-acceptance'
        return res
    has_sampler = cls != 'Neural'
    can_update = cls in ('Union', 'Nautilus')
    res.cls(cls)
    split_done = any(x is True for x in getattr(built, 'op_results', []))
    if cls == 'Nautilus':
        split_done = len(b.outer_bound.bounds) > 1
        res.cls('periodic', r['periodic'] is not None)
        res.cls('pool', pool is not None)
        res.cls('multi_neural', len(b.neural_bounds) > 1)
    res.cls('split_done', split_done)
    res.cls('unit_false', cls == 'Union' and not r['unit'])
    res.cls('networks', r.get('n_networks', 0) > 0)
    cache = len(getattr(b, 'points', [])) > 0
    res.cls('cache_nonempty', cache)
    res.nontrivial = bool(split_done or cache or res.classes.count(
        'unit_false') or r.get('periodic') or r.get('n_networks', 0) > 0)
    P = bl.probes(built, n=300, seed=r['seed'] % 1000)
    ns = list(r.get('ns', [137, 1000, 7]))
    if can_update or cls == 'Nautilus':
        ns = ns + [-1]          # ... and finally drain the cache exactly
    R = reader(cls)
    f = h5py.File('c09-%d.h5' % id(res), 'w', driver='core',
                  backing_store=False)
    try:
        g1 = f.create_group('b1')
        try:
            b.write(g1)
        except Exception as e:
            res.viol('write-raises', '%s:%s' % (cls, type(e).__name__),
                     repr(e))
            return res
        rng2 = bl.clone_rng(rng)
        try:
            c1 = R.read(g1, rng=rng2)
        except Exception as e:
            res.viol('read-raises', '%s:%s' % (cls, type(e).__name__),
                     repr(e))
            return res
        # reading without a generator must work, too
        try:
            c0 = R.read(g1) if cls != 'Neural' else R.read(g1, rng=None)
            c0.contains(P[:5])
        except Exception as e:
            res.viol('read-rng-none-raises', '%s:%s' % (
                cls, type(e).__name__), repr(e))
        if not lockstep(res, cls + ':write', [b, c1], [rng, rng2], P, ns,
                        pool, has_sampler):
            return res
        if not can_update:
            return res
        # incremental update followed by read == full write followed by read
        res.cls('updated')
        try:
            b.update(g1)
        except Exception as e:
            res.viol('update-raises', '%s:%s' % (cls, type(e).__name__),
                     repr(e))
            return res
        g2 = f.create_group('b2')
        b.write(g2)
        d = h5_diff(h5_logical(g1), h5_logical(g2))
        if d:
            res.viol('update-differs-from-write', cls, 'paths: %r' % d[:6])
        rng3, rng4 = bl.clone_rng(rng), bl.clone_rng(rng)
        try:
            c2 = R.read(g1, rng=rng3)
            c3 = R.read(g2, rng=rng4)
        except Exception as e:
            res.viol('read-raises', '%s-after-update:%s' % (
                cls, type(e).__name__), repr(e))
            return res
        lockstep(res, cls + ':update', [b, c2, c3], [rng, rng3, rng4], P,
                 ns[::-1], pool, has_sampler)
    finally:
        f.close()
    return res


def replay(case):
    try:
        return run_case(case)
    finally:
        close_pools()


def shard(ctx, tier, i, n):
    p = plan(tier)
    try:
        hyp_generate(ctx, bl.recipes(
            classes=['UnitCube', 'Ellipsoid', 'Mixture', 'Union', 'Union',
                     'Union', 'Neural', 'Nautilus', 'Nautilus', 'Nautilus'],
            pools=(0, 0, 0, 0, 0, 0, 2)), run_case,
                     p['examples'])
    finally:
        close_pools()
