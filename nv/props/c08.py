"""C08 - proposals are uniform over the bound, reported volumes calibrated."""

import copy

import numpy as np
from hypothesis import strategies as st
from scipy.special import gammaln
from scipy.stats import chi2

from nv.core import Result, hyp_generate
from nv import bounds_lab as bl
from nv import gens

ID = 'C08'
LEVEL = 'exploration'
TECHNIQUE = ('property-based testing (Hypothesis) with statistical oracles: '
             'two-sample G-test of bound.sample() against exact rejection '
             'sampling through contains(), z-test of the reported volume, '
             'closed-form ellipsoid volume vs the matrix used by contains(); '
             'p < 1e-9 plus a confirmation stage with fresh draws')
RULE = ('recipe = Union (Ellipsoid or Mixture members, unit T/F) built from '
        '2..4 close clusters / arcs / face-cut clouds with enlargement '
        '1.2..2 and 1..6 splits with overlap allowed, or NautilusBound '
        '(0..1 networks, periodic or not), d=2..4, sampled serially, through '
        'NautilusPool(2..3) or after a write/read round trip; plus single '
        'ellipsoids d=1..8 for the closed-form clause. Non-trivial = measured '
        'overlap fraction >= 1 % or cube-rejection fraction >= 1 %; distinct '
        'by recipe hash.')
ASSUMPTIONS = [
    'statistical decision: each test at p < 1e-9 and only a second '
    'exceedance with fresh draws and 4x the sample is a violation',
    'the region is the one contains() accepts; rejection sampling through '
    'contains() over a box enclosing all members is exact for it',
]
REQUIRED_CLASSES = ['Union', 'Nautilus', 'overlap>=1%', 'cube_cut>=1%',
                    'pool', 'roundtrip', 'closed_form', 'members>=2']

P_MIN = 1e-9
_POOL = {}


def plan(tier):
    if tier == 'quick':
        return dict(shards=16, budget_s=80, examples=30)
    return dict(shards=16, budget_s=900, examples=450)


def get_pool(n):
    from nautilus.pool import NautilusPool
    if n and n not in _POOL:
        _POOL[n] = NautilusPool(n)
    return _POOL.get(n)


def close_pools():
    for p in _POOL.values():
        try:
            p.pool.terminate()
            p.pool.join()
        except Exception:
            pass
    _POOL.clear()


# ----------------------------------------------------------------- generator

@st.composite
def recipes(draw):
    kind = draw(st.sampled_from(['Union', 'Union', 'Union', 'Nautilus',
                                 'Nautilus', 'Ellipsoid']))
    if kind == 'Ellipsoid':
        spec = draw(gens.point_specs(d_min=1, d_max=8, n_max=200,
                                     families=['gauss', 'banana', 'uniform'],
                                     allow_outside=True))
        return dict(cls='Ellipsoid', pts=spec,
                    seed=draw(st.integers(0, 2 ** 32 - 1)),
                    enlarge=draw(st.sampled_from([1.0, 1.1, 1.7, 3.0])))
    d = draw(st.integers(2, 4))
    fam = draw(st.sampled_from(['clusters', 'clusters', 'arc', 'face',
                                'banana', 'wrapped', 'uneven']))
    n = draw(st.integers(80, 300))
    spec = dict(d=d, n=n, family=fam, seed=draw(st.integers(0, 2 ** 32 - 1)),
                ratio=draw(st.sampled_from([1.0, 3.0, 10.0])),
                scale=draw(st.sampled_from([0.02, 0.05, 0.1])))
    if fam == 'clusters':
        k = draw(st.integers(2, 4))
        spec.update(k=k, sep=draw(st.sampled_from([0.05, 0.1, 0.2])),
                    weights=[1.0] * k)
    if fam in ('face', 'wrapped'):
        spec.update(nface=draw(st.integers(1, 2)), offset=1e-3)
    if fam == 'uneven':
        # members of very different volume (a member holding well below one
        # percent of the union): the per-member allocation of proposals
        spec.update(family='clusters', k=2, sep=draw(st.sampled_from(
            [0.25, 0.4])), weights=[1.0, 1.0], ratio=1.0, scale=0.08,
            small=draw(st.sampled_from([0.04, 0.07, 0.12])))
        kind = 'Union'
    r = dict(cls=kind, pts=spec, seed=draw(st.integers(0, 2 ** 32 - 1)),
             enlarge=draw(st.sampled_from([1.2, 1.5, 2.0])),
             mode=draw(st.sampled_from(['serial', 'serial', 'roundtrip'])))
    if kind == 'Union':
        r['member'] = draw(st.sampled_from(['Ellipsoid', 'Mixture']))
        r['unit'] = draw(st.booleans())
        r['npm'] = d + draw(st.integers(1, 10))
        r['ops'] = ['split'] * draw(st.integers(1, 6))
        if draw(st.integers(0, 2)) == 0:
            # a union whose volume was read (proposals drawn, counters
            # running) and that then lost its lowest-density member: the
            # reported volume and the proposals afterwards must describe the
            # remaining members only
            r['ops'] = r['ops'] + ['log_v', draw(st.sampled_from(
                ['trim_lo', 'trim_hi'])), draw(st.sampled_from(
                    ['sample', 'log_v']))]
        if 'small' in spec:
            r['ops'] = ['split']
            r['enlarge'] = 1.2
            r['mode'] = 'serial'
        r['ns'] = [1, 1, 1]
    else:
        r['enlarge'] = draw(st.sampled_from([1.2, 1.5]))
        r['n_networks'] = draw(st.sampled_from([0, 0, 1]))
        r['q'] = draw(st.sampled_from([0.3, 0.5]))
        r['npm'] = d + draw(st.integers(1, 10))
        r['split_threshold'] = 1
        r['log_v_target'] = -20.0
        r['periodic'] = ([0] if fam == 'wrapped' or draw(st.booleans())
                         else None)
        r['pool'] = 0
        r['mode'] = draw(st.sampled_from(['serial', 'pool', 'pool',
                                          'roundtrip']))
        if r['mode'] == 'pool':
            r['pool'] = draw(st.sampled_from([2, 3]))
        r['ns'] = [1, 1, 1]
    return r


# -------------------------------------------------------------------- oracle

def member_box(m, d):
    """Axis-aligned box enclosing one member (Ellipsoid or mixture)."""
    lo, hi = np.zeros(d), np.ones(d)
    e = m if hasattr(m, 'B') else getattr(m, 'ellipsoid', None)
    if hasattr(m, 'B'):
        idx = np.arange(d)
    elif e is not None:
        idx = np.arange(d)[~m.dim_cube]
    else:
        return lo, hi
    w = np.sqrt(np.diag(e.B @ e.B.T)) * (1 + 1e-9) + 1e-12
    lo[idx] = e.c - w
    hi[idx] = e.c + w
    return lo, hi


def region_box(members, d, unit):
    boxes = [member_box(m, d) for m in members]
    lo = np.min([b[0] for b in boxes], axis=0)
    hi = np.max([b[1] for b in boxes], axis=0)
    if unit:
        lo, hi = np.maximum(lo, 0.0), np.minimum(hi, 1.0)
    return lo, hi


def classify(members, X):
    """(multiplicity, first member, quadrant and inner/outer half in that
    member's frame)."""
    inside = np.array([np.asarray(m.contains(X)) for m in members])
    mult = inside.sum(axis=0)
    first = np.argmax(inside, axis=0)
    quad = np.zeros(len(X), dtype=int)
    for k, m in enumerate(members):
        sel = first == k
        if not np.any(sel):
            continue
        T = m.transform(X[sel])
        q = (T[:, 0] > 0).astype(int)
        if T.shape[1] > 1:
            q = q + 2 * (T[:, 1] > 0)
        # inner / outer half (by volume) of the member's ellipsoid: catches
        # a wrong radius law
        dc = getattr(m, 'dim_cube', None)
        Te = T if dc is None else T[:, ~dc]
        if Te.shape[1] > 0:
            r2 = np.sum(Te ** 2, axis=1)
            q = q + 4 * (r2 < 0.5 ** (2.0 / Te.shape[1]))
        quad[sel] = q
    return np.minimum(mult, 3) * 10000 + first * 10 + quad, mult


def g_test(cs, cr):
    """Two-sample G-test of homogeneity after merging sparse classes."""
    keys = sorted(set(cs) | set(cr))
    s = np.array([cs.get(k, 0) for k in keys], dtype=float)
    r = np.array([cr.get(k, 0) for k in keys], dtype=float)
    ns, nr = s.sum(), r.sum()
    order = np.argsort(s + r)
    s, r = s[order], r[order]
    # merge from the sparse end until every expected count >= 25
    while len(s) > 1:
        pooled = (s + r) / (ns + nr)
        if min(pooled[0] * ns, pooled[0] * nr) >= 25:
            break
        s[1] += s[0]
        r[1] += r[0]
        s, r = s[1:], r[1:]
        o = np.argsort(s + r)
        s, r = s[o], r[o]
    if len(s) < 2:
        return 1.0, 0.0, 0
    pooled = (s + r) / (ns + nr)
    Es, Er = pooled * ns, pooled * nr
    with np.errstate(divide='ignore', invalid='ignore'):
        G = 2 * (np.sum(np.where(s > 0, s * np.log(s / Es), 0)) +
                 np.sum(np.where(r > 0, r * np.log(r / Er), 0)))
    df = len(s) - 1
    return float(chi2.sf(G, df)), float(G), df


def counts(labels):
    u, c = np.unique(labels, return_counts=True)
    return dict(zip(u.tolist(), c.tolist()))


def rejection_sample(accept, lo, hi, n_target, rng, max_draws):
    """Exact uniform sample of {x in box: accept(x)}; returns accepted points,
    number of draws and number accepted."""
    got, n_draw, n_acc = [], 0, 0
    d = len(lo)
    while n_acc < n_target and n_draw < max_draws:
        X = lo + (hi - lo) * rng.random((20000, d))
        a = accept(X)
        n_draw += len(X)
        n_acc += int(np.sum(a))
        got.append(X[a])
    return np.vstack(got) if got else np.zeros((0, d)), n_draw, n_acc


def uniformity_and_volume(b, frame_members, to_frame, from_frame, unit, d,
                          sample, seed, scale, res, tag):
    """One round of the uniformity G-test and the volume z-test.

    Returns (p_uniform, z_volume, info)."""
    rng = np.random.default_rng(seed)
    lo, hi = region_box(frame_members, d, unit)
    n_s = 20000 * scale
    S = np.asarray(sample(n_s))
    Sf = to_frame(S)
    R, n_draw, n_acc = rejection_sample(
        lambda X: np.asarray(b.contains(from_frame(X))), lo, hi, n_s, rng,
        max_draws=4_000_000 * scale)
    if n_acc < 2000:
        return None, None, dict(skip='acceptance of the reference too low')
    ls, ms = classify(frame_members, Sf)
    lr, mr = classify(frame_members, R)
    p, G, df = g_test(counts(ls), counts(lr))
    res.count('g-tests')
    # volume
    vol_box = float(np.prod(hi - lo))
    p_hat = n_acc / n_draw
    v_mc = p_hat * vol_box
    var_mc = vol_box ** 2 * p_hat * (1 - p_hat) / n_draw
    v_rep = float(np.exp(b.log_v))
    var_rep = reported_variance(b, v_rep)
    # (both variances vanish when the members fill the whole box and nothing
    # is rejected: the relative floor keeps the statistic finite)
    z = (v_rep - v_mc) / np.sqrt(var_mc + var_rep + (1e-9 * v_mc) ** 2 +
                                 1e-300)
    res.count('volume-tests')
    info = dict(p=p, G=G, df=df, z=float(z), v_rep=v_rep, v_mc=v_mc,
                var_mc=var_mc,
                overlap=float(np.mean(mr >= 2)), n_ref=int(n_acc),
                accept_box=p_hat, outside_members=int(np.sum(ms == 0)))
    return p, float(z), info


def reported_variance(b, v_rep):
    """Monte-Carlo variance of the bound's own volume estimate."""
    def term(n_sample, n_reject):
        if n_sample <= 0:
            return 0.0
        a = 1.0 - n_reject / n_sample
        if a <= 0:
            return 0.0
        return (1 - a) / (a * n_sample)
    rel = term(b.n_sample, b.n_reject)
    ob = getattr(b, 'outer_bound', None)
    if ob is not None:
        rel += term(ob.n_sample, ob.n_reject)
    return v_rep ** 2 * rel


def closed_form(r, res):
    built = bl.build(r)
    e = built.bound
    d = e.n_dim
    res.cls('closed_form')
    res.count('closed-form')
    log_unit_ball = 0.5 * d * np.log(np.pi) - gammaln(0.5 * d + 1)
    # the matrix contains() actually uses is B_inv: |x| = |B_inv (p - c)| < 1
    sign, logdet = np.linalg.slogdet(np.asarray(e.B_inv))
    want = log_unit_ball - logdet
    if not np.isfinite(want) or abs(float(e.log_v) - want) > 1e-8 * max(
            1.0, abs(want)):
        res.viol('closed-form-volume', 'Ellipsoid', 'log_v %.15g, from the '
                 'matrix of contains() %.15g (d=%d)' % (e.log_v, want, d))
    A2 = e.B_inv.T @ e.B_inv
    if not np.allclose(A2, e.A, rtol=1e-6, atol=1e-6 * np.max(np.abs(e.A))):
        res.viol('closed-form-matrix', 'Ellipsoid', 'A != B_inv^T B_inv')
    # contains() agrees with the quadratic form of A on random probes
    rng = np.random.default_rng(r['seed'])
    v = rng.normal(size=(200, d))
    v /= np.linalg.norm(v, axis=1)[:, None]
    for rad, want_in in ((0.999, True), (1.001, False)):
        P = e.transform(v * rad, inverse=True)
        c = np.asarray(e.contains(P))
        q = np.einsum('ni,ij,nj->n', P - e.c, e.A, P - e.c)
        if np.any(c != want_in) or np.any((q < 1) != want_in):
            res.viol('closed-form-contains', 'Ellipsoid', 'radius %g' % rad)
    res.nontrivial = False
    return res


def run_case(r):
    import h5py
    res = Result()
    if r['cls'] == 'Ellipsoid':
        try:
            return closed_form(r, res)
        except Exception as e:
            res.discard = 'build:%s' % type(e).__name__
            return res
    pool = get_pool(r.get('pool', 0))
    try:
        built = bl.build(r, pool=pool)
    except Exception as e:
        res.discard = 'build:%s' % type(e).__name__
        return res
    b = built.bound
    cls = r['cls']
    d = built.d
    res.cls(cls)
    if cls == 'Nautilus' and built.acceptance < 0.02:
        res.discard = 'low-acceptance'
        return res
    f = None
    if r['mode'] == 'roundtrip':
        from nautilus.bounds import Union, NautilusBound
        res.cls('roundtrip')
        # sample a little first so that counters and cache are non-trivial
        (b.sample(1500, pool=pool) if cls == 'Nautilus' else b.sample(1500))
        f = h5py.File('c08-%d.h5' % id(res), 'w', driver='core',
                      backing_store=False)
        g = f.create_group('b')
        b.write(g)
        try:
            b = (Union if cls == 'Union' else NautilusBound).read(
                g, rng=np.random.default_rng(r['seed'] + 11))
        except Exception as e:
            f.close()
            res.discard = 'readback:%s' % type(e).__name__
            return res
    try:
        if cls == 'Union':
            members = b.bounds
            unit = r['unit']
            ident = (lambda X: X)
            to_frame = from_frame = ident
            sample = (lambda n: b.sample(n))
        else:
            members = b.outer_bound.bounds
            unit = True
            if b.shift is None:
                to_frame = from_frame = (lambda X: X)
            else:
                to_frame = (lambda X: b.shift.transform(X))
                from_frame = (lambda X: b.shift.transform(X, inverse=True))
            res.cls('periodic', b.shift is not None)
            res.cls('pool', pool is not None)
            res.cls('networks', r['n_networks'] > 0)
            sample = (lambda n: b.sample(n, pool=pool))
        res.cls('members>=2', len(members) >= 2)
        tag = '%s:%s' % (cls, r['mode'])
        # the volume as reported in the state the recipe left the bound in
        # (after splits / a trim / a round trip), before the draws of the
        # uniformity test dilute its counters
        try:
            v0 = float(np.exp(b.log_v))
            var0 = reported_variance(b, v0)
            acc0 = int(b.n_sample - b.n_reject)
        except Exception as e:
            res.viol('raises', '%s:%s' % (tag, type(e).__name__), repr(e))
            return res

        def z_built(inf):
            return float((v0 - inf['v_mc']) / np.sqrt(
                inf['var_mc'] + var0 + (1e-9 * inf['v_mc']) ** 2 + 1e-300))
        try:
            p, z, info = uniformity_and_volume(
                b, members, to_frame, from_frame, unit, d, sample,
                r['seed'] + 1, 1, res, tag)
        except Exception as e:
            res.viol('raises', '%s:%s' % (tag, type(e).__name__), repr(e))
            return res
        if p is None:
            res.discard = 'reference-acceptance-low'
            return res
        cube_cut = 0.0
        if unit:
            M = np.vstack([copy.deepcopy(m).sample(300) for m in members])
            cube_cut = float(np.mean(~np.all((M >= 0) & (M < 1), axis=1)))
        res.cls('overlap>=1%', info['overlap'] >= 0.01)
        res.cls('cube_cut>=1%', cube_cut >= 0.01)
        res.nontrivial = info['overlap'] >= 0.01 or cube_cut >= 0.01
        bad_p = p < P_MIN
        bad_z = abs(z) > 6.1
        # (applied when the reported estimate rests on >= 100 accepted
        # proposals, so that its binomial error is close to normal)
        bad_z0 = acc0 >= 100 and abs(z_built(info)) > 6.1
        res.count('as-built-volume-tests', int(acc0 >= 100))
        res.cls('trimmed', 'trim_lo' in r.get('ops', []) or
                'trim_hi' in r.get('ops', []))
        if bad_p or bad_z or bad_z0:
            # confirmation with fresh draws and 4x the sample
            res.cls('confirmation_run')
            p2, z2, info2 = uniformity_and_volume(
                b, members, to_frame, from_frame, unit, d, sample,
                r['seed'] + 1001, 4, res, tag)
            if bad_p and p2 is not None and p2 < P_MIN:
                res.viol('non-uniform', tag, 'G-test p=%.3g then %.3g '
                         '(G=%.1f df=%d, overlap %.3f)' % (
                             p, p2, info2['G'], info2['df'],
                             info2['overlap']))
            if bad_z0 and z2 is not None and abs(z_built(info2)) > 6.1:
                res.viol('volume-miscalibrated', tag + ':as-built',
                         'z=%.1f then %.1f against two independent Monte '
                         'Carlo references: reported %.6g right after '
                         'construction (ops %s), Monte Carlo %.6g' % (
                             z_built(info), z_built(info2), v0,
                             r.get('ops'), info2['v_mc']))
            if bad_z and z2 is not None and abs(z2) > 6.1:
                res.viol('volume-miscalibrated', tag, 'z=%.1f then %.1f: '
                         'reported %.6g, Monte Carlo %.6g' % (
                             z, z2, info2['v_rep'], info2['v_mc']))
        # focused test for members holding < 1.5 % of the union: their share
        # of the proposals against the share of the rejection-sampling
        # reference, with a sample large enough to see a 20 % deficit
        if cls == 'Union' and 'small' in r['pts'] and len(members) >= 2 \
                and not res.violations:
            lv = np.array([float(m.log_v) for m in members])
            share = np.exp(lv - np.max(lv))
            share = share / share.sum()
            k = int(np.argmin(share))
            if share[k] < 0.015:
                res.cls('tiny_member')

                def frac(scale, seed):
                    S = np.asarray(b.sample(300000 * scale))
                    lo, hi = region_box(members, d, unit)
                    R, n_draw, n_acc = rejection_sample(
                        lambda X: np.asarray(b.contains(X)), lo, hi,
                        300000 * scale, np.random.default_rng(seed),
                        max_draws=40_000_000 * scale)
                    if n_acc < 100000:
                        return None
                    fs = np.asarray(members[k].contains(S))
                    fr = np.asarray(members[k].contains(R))
                    p1, p2 = fs.mean(), fr.mean()
                    pp = (fs.sum() + fr.sum()) / (len(fs) + len(fr))
                    se = np.sqrt(pp * (1 - pp) * (1 / len(fs) + 1 / len(fr)))
                    return (p1 - p2) / max(se, 1e-300), p1, p2
                res.count('tiny-member-tests')
                out1 = frac(1, r['seed'] + 5)
                if out1 is not None and abs(out1[0]) > 6.1:
                    out2 = frac(3, r['seed'] + 6)
                    if out2 is not None and abs(out2[0]) > 6.1:
                        res.viol('non-uniform', tag + ':tiny-member',
                                 'member holding %.3f %% of the region gets '
                                 '%.4f %% of the proposals (z=%.1f then '
                                 '%.1f)' % (100 * out2[2], 100 * out2[1],
                                            out1[0], out2[0]))
        if info['outside_members']:
            res.viol('sample-outside-members', tag, '%d samples in no member'
                     % info['outside_members'])
    finally:
        if f is not None:
            f.close()
    return res


def replay(case):
    try:
        return run_case(case)
    finally:
        close_pools()


def shard(ctx, tier, i, n):
    p = plan(tier)
    try:
        hyp_generate(ctx, recipes(), run_case, p['examples'],
                     shrink_budget_s=60 if tier == 'quick' else 200,
                     max_shrink_buckets=2)
    finally:
        close_pools()
