"""C13 - a union of ellipsoids stays well-formed under any split/trim/sample
order."""

import copy

import numpy as np
from hypothesis import strategies as st
from scipy.special import logsumexp

from nv.core import Result, hyp_generate

ID = 'C13'
LEVEL = 'exploration'
TECHNIQUE = ('exhaustive depth-first enumeration of operation sequences over '
             'the alphabet {split, split(no overlap), trim(1.01), trim(), '
             'sample} on Hypothesis-generated clustered point sets, against '
             'a reference model of the per-ellipsoid records')
RULE = ('point set = 1..4 Gaussian clusters (drawn sizes, separation, '
        'anisotropy; incl. tiny tight second cluster, blob+halo and coordinates '
        'of order 1e-90), d=2..5, '
        'member class Ellipsoid or UnitCubeEllipsoidMixture, n_points_min '
        'drawn, unit True/False; for each point set EVERY operation sequence '
        'of length <= L (4 quick, 6 thorough) is executed by a DFS that '
        'deep-copies the union (with its generator) at each node; a subtree '
        'below a refused operation that changed nothing is pruned (its state '
        'equals the parent). One evaluation = one node (one operation). '
        'Non-trivial node = its history contains a successful split and a '
        'successful trim; distinct by (point-set hash, operation path).')
EXHAUSTIVE_NOTE = ('exhaustive over operation sequences up to length L per '
                   'point set; the point sets themselves are sampled')
ASSUMPTIONS = [
    'construction sets are in general position (no d+1 rows co-planar or '
    'coincident), as live points of a continuous likelihood are',
    'the per-ellipsoid records are read through the documented attributes '
    'bounds / points_bounds / log_v_all / block',
]
REQUIRED_CLASSES = ['split_ok', 'trim_ok', 'trim_then_split',
                    'split_refused', 'mixture_members']

OPS = ['split', 'split_noov', 'trim_lo', 'trim_hi', 'sample']


def plan(tier):
    if tier == 'quick':
        return dict(shards=16, budget_s=100, L=4, sets=14)
    return dict(shards=16, budget_s=1100, L=6, sets=24)


@st.composite
def setups(draw):
    tiny = draw(st.sampled_from([False] * 5 + [True]))
    # tiny: coordinates of order 1e-90 in d >= 4 put log V below -745, where
    # exp() underflows: only the logarithms of the volumes are representable
    d = draw(st.integers(4, 5)) if tiny else draw(st.integers(2, 5))
    k = draw(st.integers(1, 4))
    npm = draw(st.integers(d + 1, d + 12))
    sizes = [draw(st.sampled_from([npm - 2, npm + 1, 2 * npm, 2 * npm + 3,
                                   4 * npm, 6 * npm])) for _ in range(k)]
    sizes = [max(3, s) for s in sizes]
    if sum(sizes) < d + 2:
        sizes[0] = d + 2
    return dict(
        d=d, sizes=sizes, npm=npm,
        sep=draw(st.sampled_from([0.05, 0.15, 0.3, 0.5])),
        scale=draw(st.sampled_from([0.004, 0.02, 0.05])),
        ratio=draw(st.sampled_from([1.0, 4.0, 50.0])),
        halo=draw(st.sampled_from([0, 0, 0, 15])),
        member=draw(st.sampled_from(['Ellipsoid', 'Mixture'])),
        unit=False if tiny else draw(st.booleans()),
        enlarge=draw(st.sampled_from([1.0, 1.1, 1.5])),
        # coordinates of order 1e-90 (unit=False only): ellipsoid volumes
        # below the smallest double, only their logarithms are representable
        tiny=tiny,
        # uniformly filled balls: splitting them increases the summed volume,
        # so the volume test has to refuse (Gaussian blobs never get there)
        shape=draw(st.sampled_from(['gauss', 'gauss', 'ball'])),
        seed=draw(st.integers(0, 2 ** 32 - 1)))


def build_points(s):
    rng = np.random.default_rng(s['seed'])
    d = s['d']
    parts = []
    base = rng.uniform(0.3, 0.7, d)
    for j, m in enumerate(s['sizes']):
        direction = rng.normal(size=d)
        direction /= np.linalg.norm(direction)
        c = base + s['sep'] * j * direction
        axes = s['scale'] * np.exp(-rng.random(d) * np.log(s['ratio']))
        q, _ = np.linalg.qr(rng.normal(size=(d, d)))
        g = rng.normal(size=(m, d))
        if s.get('shape') == 'ball':
            g = g / np.linalg.norm(g, axis=1)[:, None] * (
                rng.random((m, 1)) ** (1.0 / d)) * 2.0
        parts.append(c + (g * axes) @ q.T)
    if s['halo']:
        parts.append(base + 0.25 * rng.normal(size=(s['halo'], d)))
    x = np.vstack(parts)
    if s.get('tiny') and not s['unit']:
        return x * 1e-90
    if s['unit']:
        x = np.mod(x, 2.0)
        x = np.where(x >= 1.0, 2.0 - x, x)
        x = np.clip(x, 0.0, float(np.nextafter(1.0, 0.0)))
    return x


def build_union(s):
    from nautilus.bounds import Union, Ellipsoid, UnitCubeEllipsoidMixture
    pts = build_points(s)
    cls = Ellipsoid if s['member'] == 'Ellipsoid' else UnitCubeEllipsoidMixture
    rng = np.random.default_rng(s['seed'] + 1)
    u = Union.compute(pts, enlarge_per_dim=s['enlarge'],
                      n_points_min=s['npm'], unit=s['unit'], bound_class=cls,
                      rng=rng)
    return u, pts


def rows_key(a):
    a = np.ascontiguousarray(a, dtype=float)
    return sorted(r.tobytes() for r in a)


def member_sig(b):
    """Geometry of one member bound (for 'unchanged' comparisons)."""
    out = []
    for obj in (b, getattr(b, 'ellipsoid', None)):
        if obj is None:
            continue
        for name in ('c', 'A', 'dim_cube'):
            if hasattr(obj, name):
                out.append(np.asarray(getattr(obj, name)).tobytes())
    return tuple(out)


def record_state(u):
    return dict(
        n=len(u.bounds),
        sigs=[member_sig(b) for b in u.bounds],
        pts=[np.array(p, copy=True) for p in u.points_bounds],
        log_v=[float(b.log_v) for b in u.bounds],
        block=np.array(u.block, copy=True))


def apply_op(u, op):
    if op == 'split':
        return u.split()
    if op == 'split_noov':
        return u.split(allow_overlap=False)
    if op == 'trim_lo':
        return u.trim(threshold=1.01)
    if op == 'trim_hi':
        return u.trim()
    if op == 'sample':
        return u.sample(137)
    raise ValueError(op)


def check_step(u, op, before, model_rows, s, res, out):
    """Oracle after one operation.  Returns (ok_to_continue, outcome)."""
    comp = op
    d = s['d']
    # --- one consistent record per ellipsoid
    try:
        n = len(u.bounds)
        lens = (n, len(u.points_bounds), len(u.log_v_all), len(u.block))
    except AttributeError as e:
        raise RuntimeError('documented Union attributes missing: %r' % e)
    res.count('records')
    if len(set(lens)) != 1:
        res.viol('records-misaligned', comp,
                 'len(bounds, points_bounds, log_v_all, block) = %r after %s'
                 % (lens, op))
        return False, None
    lv = np.array([float(b.log_v) for b in u.bounds])
    if not np.array_equal(np.asarray(u.log_v_all, dtype=float), lv):
        res.viol('volume-record-stale', comp, 'log_v_all %r vs members %r' % (
            np.asarray(u.log_v_all).tolist(), lv.tolist()))
    for i, p in enumerate(u.points_bounds):
        if len(p) < 2 * s['npm'] and not bool(u.block[i]):
            res.viol('flag', comp, 'record %d has %d < 2*%d points but may '
                     'still split' % (i, len(p), s['npm']))
    # --- points are exactly the construction points not trimmed away
    cur = rows_key(np.vstack(u.points_bounds)) if n else []
    if op == 'sample':
        pts = out
        if not (isinstance(pts, np.ndarray) and pts.shape == (137, d)):
            res.viol('sample-shape', comp, 'got %r' % (np.shape(pts),))
        if not (0 <= u.n_reject <= u.n_sample and u.n_sample % 1000 == 0
                and u.n_sample > 0):
            res.viol('sample-counters', comp, 'n_sample=%r n_reject=%r' % (
                u.n_sample, u.n_reject))
        changed = (n != before['n'] or
                   [member_sig(b) for b in u.bounds] != before['sigs'] or
                   any(not np.array_equal(a, b) for a, b in
                       zip(u.points_bounds, before['pts'])) or
                   not np.array_equal(u.block, before['block']))
        if changed:
            res.viol('sample-changed-records', comp, '')
        return True, 'sample'
    success = out
    if not isinstance(success, (bool, np.bool_)):
        res.viol('return-type', comp, 'returned %r' % (success,))
        return False, None
    sigs = [member_sig(b) for b in u.bounds]
    if not success:
        same = (n == before['n'] and sigs == before['sigs'] and all(
            np.array_equal(a, b) for a, b in zip(u.points_bounds,
                                                 before['pts'])))
        if not same:
            res.viol('refused-changed', comp, 'refused %s changed members '
                     'or points (%d -> %d records)' % (op, before['n'], n))
            return False, None
        if cur != model_rows[0]:
            res.viol('points-lost', comp, 'rows differ after refused op')
        if op == 'split' and not np.all(u.block):
            res.viol('flag', 'split-refused-but-unblocked',
                     'split() refused while block=%r' % (
                         np.asarray(u.block).tolist()))
        return True, 'refused'
    if op.startswith('split'):
        if n != before['n'] + 1:
            res.viol('split-records', comp, '%d -> %d records' % (
                before['n'], n))
            return False, None
        # one old record replaced by two new ones whose rows partition it
        old = list(before['sigs'])
        new_idx = []
        for i, sg in enumerate(sigs):
            if sg in old:
                old.remove(sg)
            else:
                new_idx.append(i)
        if len(old) != 1 or len(new_idx) != 2:
            res.viol('split-records', comp, 'expected one record replaced '
                     'by two; %d old removed, %d new' % (
                         len(old), len(new_idx)))
            return False, None
        j = [i for i, sg in enumerate(before['sigs']) if sg == old[0]][0]
        parent_rows = rows_key(before['pts'][j])
        child_rows = rows_key(np.vstack([u.points_bounds[i]
                                         for i in new_idx]))
        if parent_rows != child_rows:
            res.viol('split-partition', comp, 'children rows are not a '
                     'partition of the parent rows (%d vs %d)' % (
                         len(child_rows), len(parent_rows)))
        for i in new_idx:
            res.count('child-min')
            if len(u.points_bounds[i]) < s['npm']:
                res.viol('child-below-minimum', comp, 'child with %d points,'
                         ' n_points_min=%d' % (len(u.points_bounds[i]),
                                               s['npm']))
        v0 = logsumexp(before['log_v'])
        v1 = logsumexp(lv)
        if v1 > v0 + 1e-9:
            res.viol('split-volume-increased', comp, 'sum log V %.12g -> '
                     '%.12g' % (v0, v1))
        if cur != model_rows[0]:
            res.viol('points-lost', comp, 'rows differ after split')
        return True, 'split_ok'
    # successful trim: exactly one record and its rows removed
    if n != before['n'] - 1:
        res.viol('trim-records', comp, '%d -> %d records' % (before['n'], n))
        return False, None
    old = list(range(before['n']))
    for sg in sigs:
        for i in old:
            if before['sigs'][i] == sg:
                old.remove(i)
                break
    if len(old) != 1:
        res.viol('trim-records', comp, 'could not identify the dropped '
                 'record')
        return False, None
    gone = rows_key(before['pts'][old[0]])
    want = list(model_rows[0])
    for r in gone:
        want.remove(r)
    if cur != sorted(want):
        res.viol('trim-rows', comp, 'rows after trim are not the previous '
                 'rows minus the dropped record')
    model_rows[0] = sorted(want)
    return True, 'trim_ok'


def walk(u, s, path, hist, model_rows, L, emit, stop):
    """DFS over the operation alphabet."""
    if len(path) >= L or stop():
        return
    for op in OPS:
        if op == 'split_noov' and s['member'] != 'Ellipsoid':
            continue
        if stop():
            return
        u2 = copy.deepcopy(u)
        res = Result()
        before = record_state(u2)
        mr = [list(model_rows[0])]
        cont, outcome = True, None
        try:
            out = apply_op(u2, op)
        except RuntimeError:
            raise
        except Exception as e:
            res.viol('raises', '%s:%s' % (op, type(e).__name__),
                     '%s after %s raised %r' % (op, path, e))
            cont = False
        else:
            cont, outcome = check_step(u2, op, before, mr, s, res, out)
        p2 = path + [op]
        h2 = hist | ({outcome} if outcome else set())
        if outcome == 'split_ok' and 'trim_ok' in hist:
            h2 = h2 | {'trim_then_split'}
        emit(p2, res, h2, outcome)
        if not cont:
            continue
        if outcome == 'refused':
            continue      # state equals the parent's: subtree pruned
        walk(u2, s, p2, h2, mr, L, emit, stop)


def run_setup(s, L, emit, stop=lambda: False):
    u, pts = build_union(s)
    walk(u, s, [], set(), [rows_key(pts)], L, emit, stop)


def run_path(case):
    """Replay: one setup and one operation path."""
    res = Result()
    s, path = case['setup'], case['path']
    u, pts = build_union(s)
    model_rows = [rows_key(pts)]
    hist = set()
    for op in path:
        before = record_state(u)
        try:
            out = apply_op(u, op)
        except Exception as e:
            res.viol('raises', '%s:%s' % (op, type(e).__name__),
                     '%s raised %r' % (op, e))
            break
        cont, outcome = check_step(u, op, before, model_rows, s, res, out)
        if outcome:
            hist.add(outcome)
        if not cont:
            break
    res.nontrivial = 'split_ok' in hist and 'trim_ok' in hist
    return res


def replay(case):
    # replaying a path re-derives the generator state of the DFS because the
    # union is deep-copied together with its generator at every node, so the
    # path from the root sees exactly the same random stream.
    return run_path(case)


def shard(ctx, tier, i, n):
    p = plan(tier)
    L = p['L']
    per_set_budget = ctx.budget_s / p['sets']
    complete = [True]

    def run_case(s):
        import time
        t_end = time.time() + per_set_budget * 1.5
        nodes = [0]

        def stop():
            if ctx.out_of_time() or time.time() > t_end:
                complete[0] = False
                return True
            return False

        def emit(path, res, hist, outcome):
            nodes[0] += 1
            res.cls('split_ok', outcome == 'split_ok')
            res.cls('trim_ok', outcome == 'trim_ok')
            res.cls('split_refused', outcome == 'refused' and
                    path[-1].startswith('split'))
            res.cls('trim_then_split', 'trim_then_split' in hist)
            res.cls('mixture_members', s['member'] != 'Ellipsoid')
            res.cls('unit_false', not s['unit'])
            res.cls('tiny_scale', bool(s.get('tiny')) and not s['unit'])
            res.cls('ball_shape', s.get('shape') == 'ball')
            res.cls('split_refused_with_room', outcome == 'refused' and
                    path[-1] == 'split' and s['sizes'][0] >= 4 * s['npm'] and
                    len(path) == 1)
            res.nontrivial = 'split_ok' in hist and 'trim_ok' in hist
            ctx.record(dict(setup=s, path=path), res,
                       sample=(nodes[0] % 97 == 1))

        try:
            run_setup(s, L, emit, stop)
        except RuntimeError:
            raise
        except Exception as e:
            # building the union itself failed: not a statement of C13
            r = Result()
            r.discard = 'setup:%s' % type(e).__name__
            ctx.record(dict(setup=s, path=[]), r)
        return Result()

    class Sink:
        """hyp_generate wants run_case -> Result and records it; the per-node
        records are made in emit(), so the per-setup record is neutral."""

    import hypothesis
    from hypothesis import given, settings, Phase, HealthCheck
    from nv.core import derive_seed

    from nv.core import case_hash
    done = [0]

    @hypothesis.seed(derive_seed(ctx.seed, ID, i))
    @settings(max_examples=p['sets'] * n, database=None, deadline=None,
              phases=[Phase.generate],
              suppress_health_check=list(HealthCheck))
    @given(setups())
    def t(s):
        # a setup is executed by the shard owning its hash (all Hypothesis
        # runs start with the same simplest examples whatever the seed)
        if int(case_hash(s), 16) % n != i % n or done[0] >= p['sets']:
            return
        if ctx.out_of_time():
            complete[0] = False
            return
        done[0] += 1
        run_case(s)
        ctx.extra['point_sets'] = ctx.extra.get('point_sets', 0) + 1

    t()
    ctx.exhaustive = complete[0]


def minimize(case, bucket):
    """Shorten the path: drop operations while the bucket still fails."""
    path = list(case['path'])
    s = case['setup']

    def fails(p):
        r = run_path(dict(setup=s, path=p))
        for v in r.violations:
            if v['clause'] + '/' + v['component'] == bucket:
                return v['detail']
        return None

    detail = fails(path)
    if detail is None:
        return None, None
    changed = True
    while changed:
        changed = False
        for j in range(len(path)):
            p2 = path[:j] + path[j + 1:]
            d2 = fails(p2)
            if d2 is not None:
                path, detail, changed = p2, d2, True
                break
    return dict(setup=s, path=path), detail
