"""C04 - evidence and posterior are statistically correct on problems with
known answers."""

import concurrent.futures as cf
import os
import warnings

import numpy as np
from hypothesis import strategies as st

from nv.core import Result, hyp_generate, case_hash
from nv import problems as pr
from nv import samplerlab as sl

ID = 'C04'
LEVEL = 'exploration'
TECHNIQUE = ('property-based testing (Hypothesis) of seed ENSEMBLES: drawn '
             'cells (closed-form problem x configuration), N independent '
             'seeds per cell; per-run coverage of the reported error, '
             'Student-t test of the ensemble mean of log Z, posterior means '
             'and sum of shell volumes, two-stage confirmation')
RULE = ('cell = problem with analytic answer {truncated Gaussian d=2..5, two '
        'separated summed modes, half-space zero plateau with log ramp '
        '(Z=(1-a)^2/2), wrap-around peak declared periodic, constant} or a '
        'family without closed form (funnel, banana, staircase: only the '
        'volume identity) x configuration {0/1 network, periodic, sampler '
        'pool none/2, split_threshold 1/100, n_live 300..600, n_eff '
        '2000..5000, discard True (False in a share of cells: allowance '
        '0.02)}; N seeds per cell (quick 48, thorough 192). Non-trivial = '
        'run that returned success with >= 3 shells; distinct = (cell, '
        'seed).')
ASSUMPTIONS = [
    'statistical decision: |t| <= 6.5 per cell, per-run |error| <= 6 '
    'reported sigma, and a violation only if a confirmation ensemble with '
    'fresh seeds and 2N runs exceeds the threshold again',
    'bias below about 0.3 % in log Z is invisible even in the thorough tier',
    'well-converged regime: >= 250 live points per mode',
]
REQUIRED_CLASSES = ['discard', 'success>=3shells']

T_MAX = 6.5


def plan(tier):
    if tier == 'quick':
        return dict(shards=1, budget_s=130, cells=4, N=48, hard_factor=5)
    return dict(shards=1, budget_s=1700, cells=14, N=192, hard_factor=3)


@st.composite
def cells(draw, tier='thorough'):
    # the staircase and funnel families need ~40 (mostly rejected) bound
    # constructions per run: minutes per ensemble, thorough tier only
    fam = draw(st.sampled_from(
        ['gauss', 'gauss', 'twosum', 'halflog', 'wrap', 'constant',
         'banana'] + (['funnel', 'stairs'] if tier == 'thorough' else [])))
    d = draw(st.integers(2, 5)) if fam == 'gauss' else draw(st.integers(2, 3))
    spec = dict(d=d, family=fam, blob='none', prior='identity')
    p = {}
    if fam in ('gauss', 'twosum', 'wrap', 'banana', 'funnel'):
        p['mu'] = [draw(st.sampled_from([0.4, 0.5, 0.62, 0.9]))
                   for _ in range(d)]
        p['sigma'] = [draw(st.sampled_from([0.05, 0.1, 0.25]))
                      for _ in range(d)]
    if fam == 'twosum':
        p['mu'] = [0.72] * d
        p['mu2'] = [0.25] * d
        p['sigma'] = [draw(st.sampled_from([0.04, 0.06]))] * d
        p['off2'] = draw(st.sampled_from([0.0, -1.0]))
    if fam == 'wrap':
        p['mu'][0] = 0.0
        p['sigma'][0] = draw(st.sampled_from([0.04, 0.08]))
    if fam == 'halflog':
        p['a'] = draw(st.sampled_from([0.5, 0.8, 0.9]))
    if fam == 'stairs':
        p['steps'] = [0.5, 0.8, 0.95]
    spec['params'] = p
    n_live = draw(st.sampled_from([300, 400, 600]))
    if fam == 'twosum':
        n_live = 600
    cfg = dict(
        n_live=n_live, n_batch=100, n_update=None, n_like_new_bound=None,
        n_points_min=None, split_threshold=draw(st.sampled_from([1, 100])),
        enlarge_per_dim=1.1, n_networks=draw(st.sampled_from([0, 0, 1])),
        periodic=[0] if fam == 'wrap' else None, seed=0, vectorized=True,
        nn='medium',
        pool=draw(st.sampled_from(['none'] * 5 + ['spool2'])),
        f_live=0.01, n_shell=1,
        n_eff=draw(st.sampled_from([2000, 3000, 5000])),
        discard_exploration=draw(st.sampled_from([True, True, True, False])))
    if cfg['pool'] != 'none' and fam not in ('gauss', 'twosum', 'wrap'):
        # the sampler pool refills >= 10000 proposals per call through
        # pickled bounds: minutes per ensemble on plateau families
        cfg['pool'] = 'none'
    return dict(spec=spec, cfg=cfg, base_seed=draw(st.integers(0, 10 ** 6)))


def one_run(args):
    """Worker: one converged sampler run; returns summary numbers."""
    spec, cfg, seed = args
    warnings.simplefilter('ignore')
    from nv.core import setup_path
    setup_path()
    cfg = dict(cfg, seed=int(seed))
    lab = sl.Lab(spec, cfg, use_file=False, log_calls=False)
    try:
        ok = lab.run(n_like_max=400000)
        s = lab.sampler
        pts, log_w, log_l = s.posterior()
        w = np.exp(log_w)
        mean = (w[:, None] * pts).sum(axis=0)
        var = (w[:, None] * (pts - mean) ** 2).sum(axis=0)
        sum_v = float(np.sum(np.exp(s.shell_log_v)))
        # Monte-Carlo variance of sum V: binomial part of every shell
        v = 0.0
        for i in range(len(s.bounds)):
            n_i = int(s.shell_n[i])
            N_i = int(s.shell_n_sample[i]) - (
                int(s.shell_n_sample_exp[i]) if (
                    s.discard_exploration and s.explored) else 0)
            if N_i > 0:
                f = n_i / N_i
                vb = float(np.exp(s.bounds[i].log_v))
                v += vb ** 2 * f * (1 - f) / N_i
                b = s.bounds[i]
                for o in (b, getattr(b, 'outer_bound', None)):
                    ns = getattr(o, 'n_sample', 0)
                    if o is not None and ns:
                        a = 1 - o.n_reject / ns
                        if 0 < a < 1:
                            v += (vb * f) ** 2 * (1 - a) / (a * ns)
        members = max([len(getattr(getattr(b, 'outer_bound', None), 'bounds',
                                   [])) for b in s.bounds] + [0])
        return dict(ok=bool(ok), log_z=float(s.log_z), n_eff=float(s.n_eff),
                    mean=mean.tolist(), sd=np.sqrt(var).tolist(),
                    sum_v=sum_v, sum_v_sigma=float(np.sqrt(v)),
                    n_shells=len(s.bounds), members=int(members),
                    n_like=int(s.n_like))
    except Exception as e:
        return dict(error='%s: %s' % (type(e).__name__, e))
    finally:
        lab.close()


_EXEC = {}


def executor():
    if 'x' not in _EXEC:
        _EXEC['x'] = cf.ProcessPoolExecutor(
            int(os.environ.get('NV_JOBS', '16')))
    return _EXEC['x']


def ensemble(cell, seeds):
    ex = executor()
    return list(ex.map(one_run, [(cell['spec'], cell['cfg'], s)
                                 for s in seeds], chunksize=1))


def tstat(x):
    x = np.asarray(x, dtype=float)
    sd = np.std(x, ddof=1)
    if sd == 0:
        return 0.0 if np.mean(x) == 0 else np.inf * np.sign(np.mean(x))
    return float(np.mean(x) / (sd / np.sqrt(len(x))))


def evaluate(cell, runs):
    """Return list of (clause, component, statistic, detail) exceedances."""
    truth = pr.closed_form(cell['spec'])
    good = [r for r in runs if 'error' not in r and r['ok']]
    out = []
    if len(good) < 8:
        return out, good
    allow = 0.0 if cell['cfg']['discard_exploration'] else 0.02
    tag = cell['spec']['family']
    if truth is not None:
        lz, means = truth
        dz = np.array([r['log_z'] - lz for r in good])
        per = np.abs(dz) * np.sqrt([r['n_eff'] for r in good])
        if np.max(per) - allow * np.sqrt(good[0]['n_eff']) > 6:
            out.append(('log_z-outside-reported-error', tag, float(
                np.max(per)), 'a run misses log Z by %.1f reported sigma' %
                np.max(per)))
        t = tstat(dz)
        if abs(t) > T_MAX and abs(np.mean(dz)) > allow:
            out.append(('log_z-biased', tag, t, 'mean(log Z - truth) = '
                        '%+.5f +- %.5f over %d seeds (t=%.1f)' % (
                            np.mean(dz), np.std(dz, ddof=1) / np.sqrt(
                                len(dz)), len(dz), t)))
        for j, m in enumerate(means):
            if m is None:
                continue
            dm = np.array([r['mean'][j] - m for r in good])
            t = tstat(dm)
            if abs(t) > T_MAX and abs(np.mean(dm)) > allow * 0.5:
                out.append(('posterior-mean-biased', tag, t, 'coordinate %d:'
                            ' mean offset %+.5f (t=%.1f)' % (
                                j, np.mean(dm), t)))
            z = np.abs(dm) / (np.array([r['sd'][j] for r in good]) /
                              np.sqrt([r['n_eff'] for r in good]) + 1e-300)
            if np.max(z) > 8 and allow == 0:
                out.append(('posterior-mean-outside-error', tag, float(
                    np.max(z)), 'coordinate %d off by %.1f sigma in a run' %
                    (j, np.max(z))))
    if cell['cfg']['discard_exploration']:
        dv = np.array([r['sum_v'] - 1 for r in good])
        t = tstat(dv)
        if abs(t) > T_MAX:
            out.append(('volume-sum-biased', tag, t, 'mean(sum V - 1) = '
                        '%+.5f (t=%.1f over %d seeds)' % (np.mean(dv), t,
                                                          len(dv))))
        zz = np.abs(dv) / (np.array([r['sum_v_sigma'] for r in good]) +
                           1e-12)
        if np.max(zz) > 8:
            out.append(('volume-sum-outside-error', tag, float(np.max(zz)),
                        'sum of shell volumes off by %.1f sigma in a run '
                        '(%.5f)' % (np.max(zz), 1 + dv[np.argmax(zz)])))
    return out, good


def run_case(cell, N=64):
    res = Result()
    rng = np.random.default_rng(cell['base_seed'])
    seeds = rng.integers(0, 2 ** 31 - 1, size=N)
    runs = ensemble(cell, seeds)
    errs = [r['error'] for r in runs if 'error' in r]
    if len(errs) > N // 4:
        res.discard = 'runs-failed:' + errs[0].split(':')[0]
        return res
    exceed, good = evaluate(cell, runs)
    fam = cell['spec']['family']
    res.cls(fam)
    res.cls('networks', cell['cfg']['n_networks'] > 0)
    res.cls('discard', cell['cfg']['discard_exploration'])
    res.cls('keep_exploration', not cell['cfg']['discard_exploration'])
    res.cls('sampler_pool', cell['cfg']['pool'] != 'none')
    res.cls('periodic', cell['cfg']['periodic'] is not None)
    res.cls('multi_member_bounds', any(r.get('members', 0) >= 2
                                       for r in good))
    nt = [(case_hash(cell), int(s)) for s, r in zip(seeds, runs)
          if 'error' not in r and r['ok'] and r['n_shells'] >= 3]
    res.cls('success>=3shells', len(nt) > 0)
    res.count('sampler-runs', len(runs))
    res.count('cells')
    if exceed:
        res.cls('confirmation_run')
        seeds2 = np.random.default_rng(cell['base_seed'] + 1).integers(
            0, 2 ** 31 - 1, size=2 * N)
        runs2 = ensemble(cell, seeds2)
        res.count('sampler-runs', len(runs2))
        exceed2, _ = evaluate(cell, runs2)
        keys2 = {(c, k) for c, k, _, _ in exceed2}
        for c, k, stat, detail in exceed:
            if (c, k) in keys2:
                d2 = [d for cc, kk, _, d in exceed2 if (cc, kk) == (c, k)][0]
                res.viol(c, k, '%s; confirmation: %s' % (detail, d2))
    res.nontrivial = bool(nt)
    res.extra_nontrivial = nt
    return res


def replay(case):
    try:
        return run_case(case, N=case.get('N', 64))
    finally:
        ex = _EXEC.pop('x', None)
        if ex is not None:
            ex.shutdown()


def strata(seed):
    """Cells every run contains (stratification, DESIGN 1.7): classes that a
    uniform draw over the grid reaches too rarely for a 5-cell quick run."""
    base = dict(n_live=300, n_batch=100, n_update=None, n_like_new_bound=None,
                n_points_min=None, split_threshold=100, enlarge_per_dim=1.1,
                n_networks=0, periodic=None, seed=0, vectorized=True,
                nn='medium', pool='none', f_live=0.01, n_shell=1, n_eff=2000,
                discard_exploration=True)
    rng = np.random.default_rng(seed)
    edge = float(rng.choice([0.04, 0.06, 0.94]))
    return [
        # a mode cut by a cube face, proposals through the sampler pool: the
        # pool path merges the counters of both rejection levels
        dict(spec=dict(d=2, family='gauss', blob='none', prior='identity',
                       params=dict(mu=[edge, 0.5], sigma=[0.1, 0.1])),
             cfg=dict(base, pool='spool2'),
             base_seed=int(rng.integers(0, 10 ** 6))),
        # two modes three sigma apart with forced multi-ellipsoid outer
        # bounds: the ellipsoids of the union overlap in the shells that
        # carry the evidence (1/multiplicity correction, rejection counters)
        dict(spec=dict(d=2, family='twosum', blob='none', prior='identity',
                       params=dict(mu=[0.6, 0.6], mu2=[0.47, 0.47],
                                   sigma=[0.06, 0.06], off2=0.0)),
             cfg=dict(base, n_live=600, split_threshold=1),
             base_seed=int(rng.integers(0, 10 ** 6))),
        # an unconstrained parameter next to constrained ones, no networks:
        # the bounds take that dimension from the unit cube (cube-ellipsoid
        # mixture members), so membership and proposals of a shell are
        # decided by different code paths that must describe the same region
        dict(spec=dict(d=3, family='gauss', blob='none', prior='identity',
                       params=dict(mu=[0.5, float(rng.choice([0.4, 0.6])),
                                       0.5], sigma=[0.1, 0.1, 30.0])),
             cfg=dict(base, n_live=400),
             base_seed=int(rng.integers(0, 10 ** 6))),
    ]


def shard(ctx, tier, i, n):
    p = plan(tier)
    try:
        from nv.core import with_timeout
        for cell in strata(ctx.seed):
            if ctx.out_of_time():
                break
            ctx.record(cell, with_timeout(
                lambda c: run_case(c, N=p['N']), cell, ctx, 1500))
        hyp_generate(ctx, cells(tier), lambda c: run_case(c, N=p['N']),
                     p['cells'], case_timeout=1500, shrink_budget_s=1,
                     max_shrink_buckets=0)
    finally:
        ex = _EXEC.pop('x', None)
        if ex is not None:
            ex.shutdown()
