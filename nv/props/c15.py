"""C15 - Prior maps the unit cube to parameters as declared."""

import copy
import numbers

import numpy as np
from hypothesis import strategies as st

from nv.core import Result, hyp_generate

ID = 'C15'
LEVEL = 'exploration'
TECHNIQUE = ('exhaustive enumeration of declaration sequences over a reduced '
             'alphabet (itertools-style DFS, 16 processes) plus Hypothesis '
             'sequences with full parameter variety, against a reference '
             'interpreter of the declaration list and a CDF round trip')
RULE = ('(1) every sequence of length <= L (L=4 quick, 5 thorough) over 28 '
        'declaration symbols = key form {fresh, auto, explicit x_(k+1) that '
        'collides with a later auto key} x dist form {uniform range, scipy '
        'norm, fixed number, link to last / first key, link to itself, link '
        'to undeclared key, unsupported type} plus {duplicate key, non-string '
        'key} x {uniform, link}; every node of the prefix tree is checked. '
        '(2) Hypothesis sequences of length <= 12 with drawn distributions '
        '(norm, gamma, expon, beta, lognorm, uniform, laplace; frozen with '
        'positional arguments), fixed values of several number '
        'types, links to any earlier key, all malformed kinds; unit-cube '
        'inputs of shape (d,) and (n,d) incl. 0, tiny and 1-2^-53, and a '
        'sorted grid. Non-trivial = sequence with a link chain of length >= 2 '
        'or a rejected declaration followed by an accepted one; enumerated '
        'sequences are distinct by construction, Hypothesis cases by hash.')
ASSUMPTIONS = [
    'scipy.stats cdf is used as the independent inverse of the transform '
    '(tolerance 1e-9)',
    'uniform ranges are declared with a < b; tuples of other lengths are '
    'outside the documented domain',
]
REQUIRED_CLASSES = ['chain>=2', 'reject_then_accept', 'rejected', 'shape_1d',
                    'shape_2d']

ONE_M = float(np.nextafter(1.0, 0.0))


def plan(tier):
    if tier == 'quick':
        return dict(shards=16, budget_s=70, L=4, examples=250)
    return dict(shards=16, budget_s=1100, L=5, examples=4000)


# --------------------------------------------------------------- declarations
# concrete declaration (JSON):
#   key:  {"k": "explicit", "name": str} | {"k": "auto"} | {"k": "nonstr", "t": ..}
#   dist: {"k": "uniform", "a":, "b":} | {"k": "scipy", "name":, "args": []}
#       | {"k": "fixed", "t": "int|float|npfloat|npint|bool", "v":}
#       | {"k": "link", "to": str} | {"k": "bad", "t": "list|none|dict"}

def make_key(k):
    if k['k'] == 'explicit':
        return k['name']
    if k['k'] == 'auto':
        return None
    return {'int': 5, 'tuple': ('a',), 'float': 1.5, 'bytes': b'a'}[k['t']]


_FROZEN = {}


def frozen(name, args):
    # frozen scipy distributions are immutable; building one costs ~0.2 ms
    import scipy.stats as ss
    k = (name, tuple(args))
    if k not in _FROZEN:
        _FROZEN[k] = getattr(ss, name)(*args)
    return _FROZEN[k]


def clone(prior, model):
    """Copy a prior through its documented attributes (keys, dists)."""
    from nautilus import Prior
    p2 = Prior()
    p2.keys = list(prior.keys)
    p2.dists = list(prior.dists)
    m2 = Model()
    m2.decl = list(model.decl)
    return p2, m2


def make_dist(d):
    if d['k'] == 'uniform':
        return (d['a'], d['b'])
    if d['k'] == 'scipy':
        return frozen(d['name'], d['args'])
    if d['k'] == 'fixed':
        v = d['v']
        return {'int': int, 'float': float, 'npfloat': np.float64,
                'npint': np.int64, 'bool': bool}[d['t']](v)
    if d['k'] == 'link':
        return d['to']
    return {'list': [0, 1], 'none': None, 'dict': {'a': 1}}[d['t']]


class Model:
    """Reference interpreter of a declaration list (written from the docs)."""

    def __init__(self):
        self.decl = []   # (key, kind, payload)

    def keys(self):
        return [k for k, _, _ in self.decl]

    def judge(self, key, dist):
        """Return (accepted?, record)."""
        keys = self.keys()
        if key['k'] == 'nonstr':
            return False, None
        name = key['name'] if key['k'] == 'explicit' else 'x_%d' % len(keys)
        if name in keys:
            return False, None            # duplicate / colliding key
        if dist['k'] in ('uniform', 'scipy'):
            return True, (name, 'free', dist)
        if dist['k'] == 'fixed':
            return True, (name, 'fixed', dist)
        if dist['k'] == 'link':
            if dist['to'] == name or dist['to'] not in keys:
                return False, None
            return True, (name, 'link', dist['to'])
        return False, None

    def dim(self):
        return sum(1 for _, kind, _ in self.decl if kind == 'free')

    def ultimate(self, name):
        n = 0
        while True:
            for k, kind, payload in self.decl:
                if k == name:
                    break
            if kind != 'link':
                return k, kind, payload, n
            name = payload
            n += 1

    def max_chain(self):
        return max([self.ultimate(k)[3] for k, kind, _ in self.decl
                    if kind == 'link'] + [0])


def ref_cdf(dist):
    import scipy.stats as ss
    if dist['k'] == 'uniform':
        a, b = dist['a'], dist['b']
        return lambda x: np.clip((x - a) / (b - a), 0, 1)
    return frozen(dist['name'] + '', list(dist['args']) + []).cdf


def snapshot(prior):
    return (list(prior.keys), list(prior.dists))


def same_state(prior, snap):
    k, d = snap
    return (list(prior.keys) == k and len(prior.dists) == len(d) and
            all(a is b for a, b in zip(prior.dists, d)))


def unit_inputs(d, seed, n=4):
    rng = np.random.default_rng(seed)
    u2 = rng.random((n, d))
    u2[0, :] = 0.0
    u2[1, :] = ONE_M
    if n > 2:
        u2[2, :] = 0.5
    grid = np.sort(rng.random((6, d)), axis=0)
    grid[0, :] = 1e-12
    return u2, grid


def check_transforms(prior, model, res, seed, tag, light=False):
    """Compare both transforms with the reference interpreter."""
    d = model.dim()
    res.count('dimensionality')
    try:
        dim = prior.dimensionality()
    except Exception as e:
        res.viol('dimensionality-raises', tag, repr(e))
        return
    if dim != d:
        res.viol('dimensionality', tag, 'reported %r, %d free parameters '
                 'declared (keys %r)' % (dim, d, model.keys()))
        return
    if d < 1:
        return
    u2, grid = unit_inputs(d, seed, n=3 if light else 5)
    free = [(k, p) for k, kind, p in model.decl if kind == 'free']
    inputs = [('2d', u2), ('1d', u2[-1])]
    if not light:
        inputs.append(('grid', grid))
    for shape_name, u in inputs:
        res.cls('shape_' + ('1d' if shape_name == '1d' else '2d'))
        u_before = u.copy()
        try:
            if light and shape_name == '2d':
                # one call: the dictionary exposes every physical column
                dic = prior.unit_to_dictionary(u)
                x = np.stack([np.asarray(dic[k], dtype=float) for k, _ in
                              free], axis=-1) if all(
                    k in dic for k, _ in free) else None
                if x is None:
                    res.viol('dict-keys', tag, 'free key missing in %r' % (
                        sorted(dic),))
                    continue
            else:
                x = prior.unit_to_physical(u)
                dic = None if light else prior.unit_to_dictionary(u)
        except Exception as e:
            res.viol('transform-raises', tag, '%s input: %r' % (
                shape_name, e))
            continue
        res.count('transform')
        if not np.array_equal(u, u_before):
            res.viol('input-mutated', tag, 'unit_to_physical changed input')
        if np.shape(x) != u.shape:
            res.viol('shape', tag, 'input %r output %r' % (
                u.shape, np.shape(x)))
            continue
        for j, (k, dist) in enumerate(free):
            col, uc = x[..., j], u[..., j]
            back = ref_cdf(dist)(col)
            if not np.all(np.abs(back - uc) <= 1e-9):
                res.viol('inverse-cdf', tag, 'key %s dist %r: cdf(x)-u = %r'
                         % (k, dist, np.max(np.abs(back - uc))))
            if dist['k'] == 'uniform':
                a, b = dist['a'], dist['b']
                want = a + uc * (b - a)
                if not np.all(np.abs(col - want) <= 1e-12 * (
                        abs(a) + abs(b) + 1)):
                    res.viol('uniform-affine', tag, 'key %s' % k)
            if shape_name == 'grid' and np.any(np.diff(col) < 0):
                res.viol('monotone', tag, 'key %s dist %r' % (k, dist))
        # dictionary
        if dic is None:
            continue
        if not isinstance(dic, dict) or sorted(dic) != sorted(model.keys()):
            res.viol('dict-keys', tag, 'dictionary keys %r, declared %r' % (
                sorted(dic) if isinstance(dic, dict) else type(dic),
                sorted(model.keys())))
            continue
        jfree = {k: j for j, (k, _) in enumerate(free)}
        shp = u[..., 0].shape
        for k, kind, payload in model.decl:
            tk, tkind, tp, _ = model.ultimate(k)
            val = dic[k]
            if np.shape(val) != shp:
                res.viol('dict-shape', tag, 'key %s (%s): shape %r, want %r'
                         % (k, kind, np.shape(val), shp))
                continue
            if tkind == 'free':
                want = x[..., jfree[tk]]
            else:
                want = np.full(shp, float(make_dist(tp)))
            if not np.array_equal(np.asarray(val, dtype=float), want):
                res.viol('dict-value', tag, 'key %s (%s -> %s %s)' % (
                    k, kind, tk, tkind))
    # wrong dimensionality must be refused with ValueError
    if not light:
        try:
            prior.unit_to_physical(np.zeros((2, d + 1)))
            res.viol('wrong-dim-accepted', tag, 'd+1 columns accepted')
        except ValueError:
            pass
        except Exception as e:
            res.viol('wrong-dim-exception', tag, repr(e))


def apply_decl(prior, model, key, dist, res, seed, tag, light=False):
    """Apply one declaration to implementation and model; check outcome.

    Returns True when accepted by the reference interpreter."""
    ok, rec = model.judge(key, dist)
    snap = snapshot(prior)
    res.count('declarations')
    try:
        prior.add_parameter(make_key(key), make_dist(dist))
        raised = None
    except (ValueError, TypeError) as e:
        raised = e
    except Exception as e:
        res.viol('wrong-exception', '%s/%s' % (key['k'], dist['k']),
                 '%r for %r %r after keys %r' % (e, key, dist, model.keys()))
        raised = e
    if ok:
        if raised is not None:
            res.viol('valid-rejected', '%s/%s' % (key['k'], dist['k']),
                     '%r for %r %r after keys %r' % (
                         raised, key, dist, model.keys()))
            return None
        model.decl.append(rec)
    else:
        res.cls('rejected')
        if raised is None:
            res.viol('malformed-accepted', '%s/%s' % (key['k'], dist['k']),
                     'no exception for %r %r after keys %r' % (
                         key, dist, model.keys()))
            return None
        if not same_state(prior, snap):
            res.viol('state-changed-after-rejection',
                     '%s/%s' % (key['k'], dist['k']),
                     'keys %r dists %d after rejecting %r %r (before: keys '
                     '%r dists %d)' % (prior.keys, len(prior.dists), key,
                                       dist, snap[0], len(snap[1])))
            return None
    check_transforms(prior, model, res, seed, tag, light=light)
    return ok


def run_sequence(seq, seed=0, light=False):
    from nautilus import Prior
    res = Result()
    prior, model = Prior(), Model()
    n_rej_then_acc = False
    rejected_before = False
    check_transforms(prior, model, res, seed, 'empty', light=light)
    for i, (key, dist) in enumerate(seq):
        ok = apply_decl(prior, model, key, dist, res, seed + i,
                        '%s/%s' % (key['k'], dist['k']), light=light)
        if ok is None:
            break      # implementation and model have diverged: stop here
        if ok and rejected_before:
            n_rej_then_acc = True
        if not ok:
            rejected_before = True
    chain = model.max_chain()
    res.cls('chain>=2', chain >= 2)
    res.cls('reject_then_accept', n_rej_then_acc)
    res.cls('len>=6', len(seq) >= 6)
    res.nontrivial = chain >= 2 or n_rej_then_acc
    return res


# ------------------------------------------------------------- exhaustive DFS

KEY_FORMS = ['fresh', 'auto', 'xnext']
DIST_FORMS = ['uniform', 'scipy', 'fixed', 'link_last', 'link_first',
              'link_self', 'link_undeclared', 'bad']
SYMBOLS = [(k, d) for k in KEY_FORMS for d in DIST_FORMS] + [
    (k, d) for k in ['dup', 'nonstr'] for d in ['uniform', 'link_last']]


def concretise(sym, model, pos):
    """Turn a symbolic declaration into a concrete one given the history."""
    kf, df = sym
    keys = model.keys()
    if kf == 'fresh':
        key = dict(k='explicit', name='p%d' % pos)
    elif kf == 'auto':
        key = dict(k='auto')
    elif kf == 'xnext':
        key = dict(k='explicit', name='x_%d' % (len(keys) + 1))
    elif kf == 'dup':
        key = dict(k='explicit', name=keys[0] if keys else 'p%d' % pos)
    else:
        key = dict(k='nonstr', t='int')
    own = key.get('name', 'x_%d' % len(keys))
    if df == 'uniform':
        dist = dict(k='uniform', a=-1.0 - pos, b=2.5)
    elif df == 'scipy':
        dist = dict(k='scipy', name='norm', args=[0.5 * pos, 2.0])
    elif df == 'fixed':
        dist = dict(k='fixed', t=['float', 'int', 'npfloat', 'bool'][pos % 4],
                    v=[1.5, 3, 2.25, 1][pos % 4])
    elif df == 'link_last':
        dist = dict(k='link', to=keys[-1] if keys else 'p_none')
    elif df == 'link_first':
        dist = dict(k='link', to=keys[0] if keys else 'p_none')
    elif df == 'link_self':
        dist = dict(k='link', to=own)
    elif df == 'link_undeclared':
        dist = dict(k='link', to='undeclared')
    else:
        dist = dict(k='bad', t=['list', 'none', 'dict'][pos % 3])
    return key, dist


def enumerate_shard(ctx, L, i, n):
    """DFS over all symbol sequences of length <= L owned by shard i."""
    from nautilus import Prior
    nsym = len(SYMBOLS)
    stats = dict(nodes=0, nontrivial=0, complete=True)

    def owner(path):
        # a node is owned by the shard of its first two symbols (padded by 0)
        a = path[0]
        b = path[1] if len(path) > 1 else 0
        return (a * nsym + b) % n

    def visit(prior, model, path, rej_before, rta):
        depth = len(path)
        for s in range(nsym):
            if ctx.out_of_time():
                stats['complete'] = False
                return
            p2 = path + [s]
            if len(p2) >= 2 and owner(p2) != i:
                continue
            pr, mo = clone(prior, model)
            key, dist = concretise(SYMBOLS[s], mo, depth)
            res = Result()
            mine = owner(p2) == i
            ok = apply_decl(pr, mo, key, dist, res, depth,
                            '%s/%s' % SYMBOLS[s], light=True)
            rta2 = rta or bool(ok and rej_before)
            rej2 = rej_before or (ok is False)
            if mine:
                chain = mo.max_chain()
                res.cls('chain>=2', chain >= 2)
                res.cls('reject_then_accept', rta2)
                stats['nodes'] += 1
                if chain >= 2 or rta2:
                    stats['nontrivial'] += 1
                case = dict(kind='symbolic', seq=[list(SYMBOLS[t])
                                                  for t in p2])
                ctx.record(case, res, sample=(stats['nodes'] % 5000 == 1))
            if ok is None:
                continue    # diverged: the subtree cannot be judged
            if depth + 1 < L:
                visit(pr, mo, p2, rej2, rta2)

    visit(Prior(), Model(), [], False, False)
    ctx.extra['enumerated_nodes'] = stats['nodes']
    ctx.extra['distinct_nontrivial_enumerated'] = stats['nontrivial']
    ctx.extra['const_enumeration_L'] = L
    ctx.exhaustive = stats['complete']


def replay_symbolic(seq):
    from nautilus import Prior
    res = Result()
    prior, model = Prior(), Model()
    rej = False
    rta = False
    for pos, sym in enumerate(seq):
        key, dist = concretise(tuple(sym), model, pos)
        ok = apply_decl(prior, model, key, dist, res, pos,
                        '%s/%s' % tuple(sym), light=False)
        if ok is None:
            break
        rta = rta or bool(ok and rej)
        rej = rej or (ok is False)
    res.nontrivial = model.max_chain() >= 2 or rta
    return res


# ----------------------------------------------------------------- hypothesis

finite = st.floats(min_value=-50, max_value=50, allow_nan=False)
pos = st.floats(min_value=0.5, max_value=10)


@st.composite
def sequences(draw):
    n = draw(st.integers(1, 12))
    seq = []
    keys = []          # names accepted so far according to the docs
    for i in range(n):
        kf = draw(st.sampled_from(['fresh', 'fresh', 'auto', 'auto', 'xpat',
                                   'dup', 'nonstr']))
        if kf == 'fresh':
            key = dict(k='explicit', name=draw(st.sampled_from(
                ['a', 'b', 'c', 'theta', 'p%d' % i, 'q%d' % i])))
        elif kf == 'auto':
            key = dict(k='auto')
        elif kf == 'xpat':
            key = dict(k='explicit', name='x_%d' % draw(st.integers(0, n)))
        elif kf == 'dup':
            key = dict(k='explicit', name=draw(st.sampled_from(keys))
                       if keys else 'a')
        else:
            key = dict(k='nonstr', t=draw(st.sampled_from(
                ['int', 'tuple', 'float', 'bytes'])))
        df = draw(st.sampled_from(['uniform', 'uniform', 'scipy', 'scipy',
                                   'fixed', 'link', 'link', 'link_self',
                                   'link_undeclared', 'bad']))
        if df == 'uniform':
            a = draw(finite)
            dist = dict(k='uniform', a=a, b=a + draw(st.floats(1e-3, 100)))
        elif df == 'scipy':
            name = draw(st.sampled_from(['norm', 'gamma', 'expon', 'beta',
                                         'lognorm', 'uniform', 'laplace']))
            args = {'norm': [draw(finite), draw(pos)],
                    'uniform': [draw(finite), draw(pos)],
                    'laplace': [draw(finite), draw(pos)],
                    'gamma': [draw(pos)], 'expon': [draw(finite), draw(pos)],
                    'beta': [draw(pos), draw(pos)],
                    'lognorm': [draw(st.floats(0.2, 2.0))]}[name]
            dist = dict(k='scipy', name=name, args=args)
        elif df == 'fixed':
            t = draw(st.sampled_from(['int', 'float', 'npfloat', 'npint',
                                      'bool']))
            v = (draw(st.integers(-5, 5)) if t in ('int', 'npint') else
                 draw(st.booleans()) if t == 'bool' else draw(finite))
            dist = dict(k='fixed', t=t, v=v)
        elif df == 'link':
            dist = dict(k='link', to=draw(st.sampled_from(keys))
                        if keys else 'nothing')
        elif df == 'link_self':
            dist = dict(k='link', to=key.get('name', 'x_%d' % len(keys)))
        elif df == 'link_undeclared':
            dist = dict(k='link', to=draw(st.sampled_from(
                ['zz', 'x_99', ''])))
        else:
            dist = dict(k='bad', t=draw(st.sampled_from(
                ['list', 'none', 'dict'])))
        seq.append([key, dist])
        # track accepted names (mirrors Model.judge, only to aim later draws)
        m = Model()
        m.decl = [(k, 'x', None) for k in keys]
        if key['k'] != 'nonstr':
            name = key.get('name', 'x_%d' % len(keys))
            if name not in keys and (
                    dist['k'] in ('uniform', 'scipy', 'fixed') or
                    (dist['k'] == 'link' and dist['to'] in keys and
                     dist['to'] != name)):
                keys.append(name)
    return dict(kind='concrete', seq=seq,
                seed=draw(st.integers(0, 2 ** 31)))


def run_case(case):
    if case['kind'] == 'symbolic':
        return replay_symbolic(case['seq'])
    return run_sequence([(k, d) for k, d in case['seq']], seed=case['seed'])


def replay(case):
    return run_case(case)


def shard(ctx, tier, i, n):
    p = plan(tier)
    # Hypothesis part first (cheap), the enumeration uses the rest.
    saved = ctx.budget_s
    ctx.budget_s = saved * 0.25
    hyp_generate(ctx, sequences(), run_case, p['examples'], tag='hyp')
    ctx.budget_s = saved
    enumerate_shard(ctx, p['L'], i, n)
