"""C05 - stopping and resuming at any batch boundary does not change the
result."""

import os
import shutil
import tempfile

import numpy as np
from hypothesis import strategies as st

from nv.core import Result, hyp_generate, case_hash
from nv import problems as pr
from nv import samplerlab as sl

ID = 'C05'
LEVEL = 'exploration'
TECHNIQUE = ('property-based testing (Hypothesis) with a differential '
             'oracle: generated configurations x every batch boundary '
             '(thorough) / stratified boundaries (quick) x slice and resume '
             'sequences, compared bit-for-bit with one uninterrupted run of '
             'the same seed; call-log sequence equality (no point evaluated '
             'twice or skipped)')
RULE = ('case = bit-exact likelihood family x configuration (networks 0/1, '
        'periodic, 9 blob kinds, discard_exploration, scalar/vectorised, '
        'prior fn / in-place fn / dict fn / Prior object) x cut plan. '
        'Reference R = one run() with only a total limit. A = the same run '
        'cut at EVERY batch boundary by n_like_max (and by fake-clock '
        'timeouts), digest recorded at each boundary, checkpoint copied. '
        'For boundary k in the cut set a new Sampler is built from the copy '
        'of the file and (full) continued to the end and compared with R, '
        'or (short) advanced two (batch >= 100: eight) batches and compared '
        'with A at k+1, k+2, ... '
        'thorough: every k full. quick: stratified k (first batch, around '
        'every bound insertion, end of exploration, early/late sampling) '
        'full, all other k short. Plus a generated multi-stop sequence '
        '(resume -> j batches -> resume ...). Non-trivial = a resume from '
        'file inside the exploration phase with pending transfer candidates '
        'or in the sampling phase with a non-empty proposal cache; distinct '
        'by (case hash, boundary).')
ASSUMPTIONS = [
    'the likelihood families use only + - * / and np.where so that every '
    'evaluation mode is IEEE-identical',
    'runs are limited to ~40-120 batches by a total n_like_max (the '
    'reference has the same limit)',
]
REQUIRED_CLASSES = ['resume_exploring_pending', 'resume_sampling_cache',
                    'networks', 'periodic', 'blobs', 'discard', 'explored',
                    'multi_stop', 'timeout_slices', 'Prior_object']


def plan(tier):
    if tier == 'quick':
        return dict(shards=16, budget_s=75, examples=3)
    return dict(shards=16, budget_s=1100, examples=14)


@st.composite
def cases(draw, drain=False):
    d = draw(st.integers(2, 4))
    spec = draw(pr.problem_specs(
        d=d, families=['gauss', 'twomax', 'banana', 'rfunnel', 'halfspace',
                       'stairs', 'wrap', 'slab'],
        blobs=['none', 'float', 'int', 'bool', 'S8', 'two', 'struct',
               'two_single', 'array'],
        priors=['identity', 'identity', 'inplace', 'dictfn', 'Prior']))
    # large batches drain a bound's 1000-point proposal cache several times
    # within one case (cache refills between two checkpoints)
    n_batch = draw(st.sampled_from([100, 250] if drain else
                                   [1, 2, 3, 5, 8, 13, 100, 250]))
    cfg = draw(sl.configs(d, networks=(0,) if drain else (0, 0, 1),
                          pools=('none', 'none', 'none', 'spool2'),
                          batch=st.just(n_batch), small_update=False,
                          max_live=int(min(80, max(4 * d + 4, 5 * n_batch)))))
    cfg['f_live'] = draw(st.sampled_from([0.8, 0.6, 0.4]))
    cfg['n_eff'] = draw(st.sampled_from([100, 400, 2000]))
    if drain:
        # stratum: exploration ends early and the sampling phase - batch
        # after batch into existing shells with no full checkpoint write in
        # between - is long enough for the proposal caches of both levels
        # (nautilus bound and its outer union) to be refilled several times
        # between a resume and the end of the run
        cfg['f_live'] = 0.8
        cfg['n_eff'] = 10 ** 5
    if spec['family'] == 'wrap':
        cfg['periodic'] = [0]
    n_total = draw(st.sampled_from([25, 40, 60, 90]))
    multi = draw(st.lists(st.sampled_from([1, 1, 2, 3, 5, 8]), min_size=3,
                          max_size=8))
    tslices = draw(st.lists(st.sampled_from([0, 1, 1, 2, 3, 7]), min_size=3,
                            max_size=8))
    return dict(spec=spec, cfg=cfg, batches=n_total, multi=multi,
                tslices=tslices, seed=draw(st.integers(0, 2 ** 16)),
                stale=draw(st.sampled_from([False, False, True])))


def digest(s):
    return sl.state_digest(s) + ':' + sl.posterior_digest(s)


def keys_of(problem):
    return [k for k, _, _ in problem.log]


def run_case(case, tier='quick', only_k=None):
    res = Result()
    spec, cfg = case['spec'], case['cfg']
    n_total = case['batches'] if tier == 'thorough' else min(
        case['batches'], 45)
    cap = n_total * cfg['n_batch']
    base = tempfile.mkdtemp(prefix='nvc05-',
                            dir=os.environ.get('NV_SCRATCH') or None)
    labs = []

    def lab(name, **kw):
        d = os.path.join(base, name)
        os.makedirs(d, exist_ok=True)
        lb = sl.Lab(spec, cfg, use_file=True, workdir=d, **kw)
        labs.append(lb)
        return lb

    try:
        # ---- reference: one uninterrupted run (only the total limit)
        R = lab('R')
        try:
            R.run(n_like_max=cap)
        except AttributeError:
            raise
        except Exception as e:
            res.discard = 'reference-run:%s' % type(e).__name__
            return res
        D_R = digest(R.sampler)
        L_R = keys_of(R.problem)
        n_like_R = int(R.sampler.n_like)
        R.close_pools()
        if len(set(L_R)) != len(L_R):
            res.viol('evaluated-twice', 'uninterrupted', 'the reference run '
                     'itself evaluated a point twice')
        # ---- A: cut at every batch boundary, snapshots of the file
        if case.get('stale'):
            # an old checkpoint of an earlier (finished) computation is
            # still lying at the path: a run started with resume=False must
            # not be influenced by it, and neither must its checkpoints
            os.makedirs(os.path.join(base, 'A'), exist_ok=True)
            shutil.copyfile(R.filepath, os.path.join(
                base, 'A', sl.ckpt_name(cfg)))
            res.cls('stale_file_at_start')
        A = lab('A')
        marks = []       # per boundary: dict(k, digest, file, explored, ...)
        insertions = []
        nb_prev = 0
        k = 0
        try:
            while A.sampler.n_like < cap:
                out = A.run(n_like_max=A.sampler.n_like + 1)
                k += 1
                s = A.sampler
                f = os.path.join(base, 'snap-%d.hdf5' % k)
                shutil.copyfile(A.filepath, f)
                pend = (not s.explored and len(s.bounds) > 1 and
                        bool(np.any(np.asarray(s.shell_t) >= 0)))
                cache = bool(s.explored and any(
                    len(getattr(b, 'points', [])) > 0 for b in s.bounds[1:]))
                marks.append(dict(k=k, digest=digest(s), file=f,
                                  internal=sl.internal_digest(s),
                                  explored=bool(s.explored), pending=pend,
                                  cache=cache, n_like=int(s.n_like),
                                  n_log=len(A.problem.log)))
                if len(s.bounds) != nb_prev:
                    insertions.append(k)
                    nb_prev = len(s.bounds)
                if out:
                    break
        except AttributeError:
            raise
        except Exception as e:
            res.viol('sliced-run-raises', type(e).__name__, 'run cut by '
                     'n_like_max raised %r where the uninterrupted run did '
                     'not' % e)
            return res
        K = len(marks)
        res.count('boundaries', K)
        if digest(A.sampler) != D_R:
            res.viol('sliced-differs', 'n_like_max', 'cutting the run at '
                     'every batch by n_like_max changed the result (n_like '
                     '%d vs %d)' % (A.sampler.n_like, n_like_R))
        if keys_of(A.problem) != L_R:
            res.viol('call-sequence', 'n_like_max', 'sequence of evaluated '
                     'points differs from the uninterrupted run')
        A.close_pools()
        # ---- T: cut by fake-clock timeouts
        T = lab('T', clock=True)
        try:
            i = 0
            while T.sampler.n_like < cap and i < 400:
                kk = case['tslices'][i % len(case['tslices'])]
                if i >= len(case['tslices']):
                    kk = max(1, kk)     # zero timeouts make no progress
                T.clock.allow(kk)
                out = T.run(n_like_max=cap, timeout=1.0)
                T.clock.budget = 10 ** 12
                i += 1
                if out:
                    break
            res.cls('timeout_slices')
            if digest(T.sampler) != D_R:
                res.viol('sliced-differs', 'timeout', 'cutting the run by '
                         'timeouts changed the result')
            if keys_of(T.problem) != L_R:
                res.viol('call-sequence', 'timeout', '')
        except AttributeError:
            raise
        except Exception as e:
            res.viol('sliced-run-raises', 'timeout:%s' % type(e).__name__,
                     repr(e))
        T.close()

        # ---- resumes from file
        explored_at = next((m['k'] for m in marks if m['explored']), None)
        strat = {1, 2, K - 1, K // 2}
        for j in insertions:
            strat.update({j - 1, j, j + 1})
        if explored_at:
            strat.update({explored_at - 1, explored_at, explored_at + 1,
                          (explored_at + K) // 2})
        strat = {j for j in strat if 1 <= j < K}
        rng = np.random.default_rng(case['seed'])
        if K > 3:
            strat.update(int(x) for x in rng.integers(1, K, size=2))
        if tier != 'thorough' and len(strat) > 9:
            keep = {j for j in strat if explored_at and abs(
                j - explored_at) <= 1}
            rest = sorted(strat - keep)
            keep.update(int(x) for x in rng.choice(
                rest, size=max(0, 9 - len(keep)), replace=False))
            strat = keep
        full = set(range(1, K)) if tier == 'thorough' else strat
        if only_k is not None:
            full = {only_k} & set(range(1, K))
        nt = []
        n_steered = 0
        for m in marks[:-1]:
            kk = m['k']
            if only_k is not None and kk != only_k:
                continue
            mode = 'full' if kk in full else 'short'
            d = os.path.join(base, 'B-%d' % kk)
            os.makedirs(d, exist_ok=True)
            shutil.copyfile(m['file'], os.path.join(d, sl.ckpt_name(cfg)))
            try:
                B = sl.Lab(spec, cfg, use_file=True, workdir=d,
                           resume_initial=True)
            except AttributeError:
                raise
            except Exception as e:
                res.viol('resume-raises', type(e).__name__, 'boundary %d of '
                         '%d: %r' % (kk, K, e))
                continue
            labs.append(B)
            # budget steering, not an oracle: a resumed object whose
            # internal state (caches, counters, generator) is not that of
            # the object it replaces is followed to the end of the run
            if (mode == 'short' and tier != 'thorough' and n_steered < 4 and
                    sl.internal_digest(B.sampler) != m['internal']):
                mode = 'full'
                n_steered += 1
                res.count('resumes-steered-to-full')
            res.count('resumes-' + mode)
            try:
                if int(B.sampler.n_like) != m['n_like']:
                    res.viol('resumed-count', 'n_like', 'boundary %d: %d vs '
                             '%d' % (kk, B.sampler.n_like, m['n_like']))
                if mode == 'full':
                    B.run(n_like_max=cap)
                    if digest(B.sampler) != D_R:
                        res.viol('resumed-differs', 'explored' if
                                 m['explored'] else 'exploring',
                                 'resume at boundary %d of %d (explored=%s) '
                                 'then run to the end: result differs from '
                                 'the uninterrupted run' % (
                                     kk, K, m['explored']))
                    if keys_of(B.problem) != L_R[m['n_log']:]:
                        res.viol('call-sequence', 'resumed', 'boundary %d: '
                                 'evaluated points after the resume differ '
                                 '(a point evaluated twice or skipped)' % kk)
                else:
                    # large batches drain the proposal caches quickly: follow
                    # the resumed object further (a stale cache only shows at
                    # the next refill)
                    n_follow = 8 if cfg['n_batch'] >= 100 else 2
                    for step in range(1, n_follow + 1):
                        if kk + step > K:
                            break
                        B.run(n_like_max=B.sampler.n_like + 1)
                        if digest(B.sampler) != marks[kk + step - 1][
                                'digest']:
                            res.viol('resumed-differs', 'short:' + (
                                'explored' if m['explored'] else 'exploring'),
                                'resume at boundary %d then %d batch(es): '
                                'state differs from the sliced run' % (
                                    kk, step))
                            break
            except AttributeError:
                raise
            except Exception as e:
                res.viol('resumed-run-raises', type(e).__name__, 'boundary '
                         '%d: %r' % (kk, e))
            B.close()
            if m['pending'] or m['cache']:
                nt.append((case_hash(case), kk))
            res.cls('resume_exploring_pending', m['pending'])
            res.cls('resume_sampling_cache', m['cache'])

        # ---- multi-stop: resume -> j batches -> resume -> ...
        if only_k is None:
            d = os.path.join(base, 'M')
            os.makedirs(d, exist_ok=True)
            M = sl.Lab(spec, cfg, use_file=True, workdir=d)
            labs.append(M)
            logs = []
            try:
                i = 0
                done = False
                while not done and M.sampler.n_like < cap and i < 300:
                    j = case['multi'][i % len(case['multi'])]
                    for _ in range(j):
                        if M.sampler.n_like >= cap:
                            break
                        if M.run(n_like_max=M.sampler.n_like + 1):
                            done = True
                            break
                    i += 1
                    if not done and M.sampler.n_like < cap:
                        logs.extend(keys_of(M.problem))
                        M.problem.log = []
                        M.resume()
                logs.extend(keys_of(M.problem))
                res.cls('multi_stop', i > 1)
                if digest(M.sampler) != D_R:
                    res.viol('resumed-differs', 'multi-stop', 'sequence of '
                             '%d resumes changed the result' % i)
                if logs != L_R:
                    res.viol('call-sequence', 'multi-stop', '')
            except AttributeError:
                raise
            except Exception as e:
                res.viol('resumed-run-raises', 'multi-stop:%s' %
                         type(e).__name__, repr(e))
        res.cls('networks', cfg['n_networks'] > 0)
        res.cls('periodic', cfg['periodic'] is not None)
        res.cls('blobs', spec['blob'] != 'none')
        res.cls('discard', cfg['discard_exploration'])
        res.cls('explored', explored_at is not None)
        res.cls('Prior_object', spec['prior'] == 'Prior')
        res.cls('vectorized', cfg['vectorized'])
        res.cls('sampler_pool', cfg['pool'] != 'none')
        res.nontrivial = len(nt) > 0
        res.extra_nontrivial = nt
    finally:
        for lb in labs:
            try:
                lb.close()
            except Exception:
                pass
        shutil.rmtree(base, ignore_errors=True)
    return res


def replay(case):
    return run_case(case, tier=case.get('tier', 'thorough'),
                    only_k=case.get('only_k'))


def shard(ctx, tier, i, n):
    def rc(case):
        return run_case(case, tier=tier)
    if i % 4 == 0:
        hyp_generate(ctx, cases(drain=True), rc, 1, tag='drain',
                     shrink_budget_s=120, max_shrink_buckets=1,
                     case_timeout=600)
    hyp_generate(ctx, cases(), rc, plan(tier)['examples'],
                 shrink_budget_s=120, max_shrink_buckets=1,
                 case_timeout=600)
