"""C14 - equal-weight posterior is an unbiased, order-preserving resampling."""

import numpy as np
from hypothesis import strategies as st
from scipy.special import logsumexp
from scipy.stats import binom

from nv.core import Result, hyp_generate, case_hash
from nv import problems as pr
from nv import samplerlab as sl

ID = 'C14'
LEVEL = 'exploration'
TECHNIQUE = ('property-based testing (Hypothesis): weight vectors from real '
             'generated runs x boost factors x many resampling draws; '
             'multiplicities decoded from the returned rows and checked '
             'against recomputed r_i (set membership, order, payload), exact '
             'binomial test of the mean with Bonferroni correction and a '
             'confirmation stage')
RULE = ('state = sampler after a short generated run (families incl. -inf '
        'half space / slab -> exact zero weights, narrow Gaussians -> few '
        'dominant weights; blobs float/two/array; with and without '
        'discard); boosts = 1.0, nextafter(1, 0), nextafter(1, 2), and '
        'log-uniform draws from (0.01, 50]; K resampling draws per (state, '
        'boost) (K=300 quick, 1500 thorough) with the generator reseeded '
        'from a drawn seed. Non-trivial = weight vector with zero-weight '
        'rows, or boost > 1 producing a row with >= 2 repeats; distinct by '
        '(state hash, boost).')
ASSUMPTIONS = [
    'r_i is recomputed from the normalised weights; where r_i lies within '
    '1e-9 of an integer both neighbouring multiplicities are accepted',
    'statistical clause at overall level 1e-9 (Bonferroni over rows) plus '
    'confirmation with 4x the draws',
]
REQUIRED_CLASSES = ['zero_weights', 'repeats>=2', 'boost<=1', 'boost>1',
                    'blobs', 'discard_view', 'dominant_weights']

ONE_M = float(np.nextafter(1.0, 0.0))
ONE_P = float(np.nextafter(1.0, 2.0))


def plan(tier):
    if tier == 'quick':
        return dict(shards=16, budget_s=80, examples=26, K=300)
    return dict(shards=16, budget_s=800, examples=90, K=1500)


@st.composite
def cases(draw):
    d = draw(st.integers(2, 4))
    spec = draw(pr.problem_specs(
        d=d, families=['gauss', 'gauss', 'twomax', 'banana', 'halfspace',
                       'halfspace', 'slab', 'slab', 'stairs', 'wrap',
                       'constant'],
        blobs=['none', 'float', 'two', 'array'], priors=['identity',
                                                         'identity', 'Prior']))
    n_batch = draw(st.sampled_from([5, 8, 13, 20, 40]))
    cfg = draw(sl.configs(d, networks=(0, 0, 0, 1), pools=('none',),
                          batch=st.just(n_batch), small_update=False,
                          max_live=int(min(100, max(4 * d + 4, 5 * n_batch)))))
    cfg['f_live'] = draw(st.sampled_from([0.8, 0.5, 0.2]))
    cfg['n_eff'] = draw(st.sampled_from([100, 500]))
    boosts = [1.0, draw(st.sampled_from([ONE_M, ONE_P, 0.5, 2.0, 3.0]))]
    for _ in range(2):
        boosts.append(float(np.exp(draw(st.floats(np.log(0.01),
                                                   np.log(50.0))))))
    return dict(spec=spec, cfg=cfg, batches=draw(st.sampled_from(
        [15, 30, 60])), boosts=boosts, seed=draw(st.integers(0, 2 ** 31)),
        toggle=draw(st.sampled_from([None, None, True, False])))


def posterior_key(out):
    """Row identity (bytes) of each returned row."""
    pts = out[0]
    if isinstance(pts, dict):
        ks = sorted(pts)
        n = len(out[1])
        return [b''.join(np.float64(np.asarray(pts[k])[i]).tobytes()
                         for k in ks) for i in range(n)]
    return [np.ascontiguousarray(r, dtype=float).tobytes() for r in pts]


def digest_out(out):
    import hashlib
    h = hashlib.sha256()
    for k in posterior_key(out):
        h.update(k)
    for a in out[1:]:
        h.update(np.ascontiguousarray(a).tobytes())
    return h.hexdigest()


def decode(keys0, keys1):
    """Multiplicity of every original row, or None if the returned rows are
    not the original rows repeated in order."""
    c = np.zeros(len(keys0), dtype=int)
    j = 0
    for i, k in enumerate(keys0):
        while j < len(keys1) and keys1[j] == k:
            c[i] += 1
            j += 1
    if j != len(keys1):
        return None
    return c


def run_case(case, K=150):
    res = Result()
    spec, cfg = case['spec'], case['cfg']
    lab = sl.Lab(spec, cfg, use_file=False, log_calls=False)
    try:
        try:
            for _ in range(case['batches']):
                if lab.step(1):
                    break
            s = lab.sampler
            if case['toggle'] is not None:
                s.discard_exploration = case['toggle']
        except AttributeError:
            raise
        except Exception as e:
            res.discard = 'run:%s' % type(e).__name__
            return res
        has_blobs = s.blobs is not None
        w0 = s.posterior(return_blobs=has_blobs)
        n = len(w0[1])
        if n == 0 or not np.any(np.isfinite(w0[1])):
            res.discard = 'empty-or-zero-weight-view'
            return res
        d0 = digest_out(w0)
        keys0 = posterior_key(w0)
        if len(set(keys0)) != n:
            res.discard = 'duplicate-rows (C03)'
            return res
        log_w = np.asarray(w0[1])
        w = np.exp(log_w - np.max(log_w))
        zero = int(np.sum(w == 0))
        res.cls('zero_weights', zero > 0)
        res.cls('blobs', has_blobs)
        res.cls('discard_view', bool(s.explored and s.discard_exploration))
        res.cls('dominant_weights', float(np.sum(w > 0.5)) <= 3)
        nt = []
        for bi, boost in enumerate(case['boosts']):
            r = w * boost
            fl = np.floor(r + 1e-9 * np.maximum(1, r))
            fl_lo = np.floor(r - 1e-9 * np.maximum(1, r))
            frac = r - np.floor(r)
            amb = fl != fl_lo
            res.cls('boost<=1', boost <= 1)
            res.cls('boost>1', boost > 1)
            tag = 'boost<=1' if boost <= 1 else 'boost>1'
            s.rng.bit_generator.state = np.random.PCG64(
                case['seed'] + bi).state
            succ = np.zeros(n)
            max_rep = 0
            bad = False

            def one_draw():
                nonlocal max_rep
                try:
                    out = s.posterior(equal_weight=True,
                                      equal_weight_boost=boost,
                                      return_blobs=has_blobs)
                except Exception as e:
                    # the weighted posterior of the same sampler, with the
                    # same arguments, was returned above
                    res.viol('equal-weight-raises', type(e).__name__,
                             'posterior(equal_weight=True, boost %r, '
                             'return_blobs=%r) raised %r where the weighted '
                             'posterior is returned' % (boost, has_blobs, e))
                    return None
                keys1 = posterior_key(out)
                c = decode(keys0, keys1)
                if c is None:
                    res.viol('order', tag, 'returned rows are not the '
                             'weighted rows repeated in their original '
                             'order')
                    return None
                lo_ok = (c >= fl_lo) & (c <= fl + 1)
                exact = (~amb) & ((c == fl) | (c == fl + 1))
                if not np.all(np.where(amb, lo_ok, exact)):
                    i = int(np.flatnonzero(~np.where(amb, lo_ok, exact))[0])
                    res.viol('multiplicity', tag, 'row %d: r=%.17g repeated '
                             '%d times (boost %r)' % (i, r[i], c[i], boost))
                    return None
                isint = (~amb) & (frac == 0)
                if np.any(c[isint] != r[isint]):
                    res.viol('multiplicity', tag + ':integer-r', 'row with '
                             'integer r not repeated exactly r times')
                    return None
                if boost <= 1 and np.any(c > 1):
                    res.viol('repeat-with-boost<=1', tag, 'boost %r' % boost)
                    return None
                # payload of every repeat
                idx = np.repeat(np.arange(n), c)
                if not np.array_equal(np.asarray(out[2]),
                                      np.asarray(w0[2])[idx]):
                    res.viol('payload', 'log_l', 'log L of a repeat differs')
                    return None
                if has_blobs and np.asarray(out[3]).tobytes() != np.asarray(
                        w0[3])[idx].tobytes():
                    res.viol('payload', 'blob', 'blob of a repeat differs')
                    return None
                lw = np.asarray(out[1])
                if len(lw):
                    if not np.all(lw == lw[0]):
                        res.viol('weights', 'unequal', 'returned weights are '
                                 'not all equal')
                        return None
                    if abs(logsumexp(lw)) > 1e-9:
                        res.viol('weights', 'normalisation', 'logsumexp=%g' %
                                 logsumexp(lw))
                        return None
                max_rep = max(max_rep, int(c.max()) if n else 0)
                return c

            def draws(k):
                tot = np.zeros(n)
                for _ in range(k):
                    c = one_draw()
                    if c is None:
                        return None
                    tot += (c - np.floor(r))
                return tot

            tot = draws(K)
            res.count('resampling-draws', K)
            if tot is None:
                continue
            # the weighted posterior itself is unchanged
            if digest_out(s.posterior(return_blobs=has_blobs)) != d0:
                res.viol('weighted-posterior-changed', tag, '')
                continue
            # expectation: exact binomial test per row, Bonferroni
            test = (~amb) & (w > 0)
            m = int(np.sum(test))
            if m:
                def pvals(t, k):
                    p = frac[test]
                    x = t[test]
                    lo = binom.cdf(x, k, p)
                    hi = binom.sf(x - 1, k, p)
                    return np.minimum(1.0, 2 * np.minimum(lo, hi))
                pv = pvals(tot, K)
                res.count('binomial-tests', m)
                if np.min(pv) < 1e-9 / m:
                    res.cls('confirmation_run')
                    tot2 = draws(4 * K)
                    if tot2 is not None:
                        pv2 = pvals(tot2, 4 * K)
                        j = int(np.argmin(pv))
                        if pv2[j] < 1e-9 / m:
                            res.viol('biased', tag, 'row with frac(r)=%.6g: '
                                     'mean extra repeats %.4g over %d draws '
                                     '(p=%.3g, then %.3g)' % (
                                         frac[test][j],
                                         tot2[test][j] / (4 * K), 4 * K,
                                         pv[j], pv2[j]))
                # aggregated over rows: sensitive to a small common bias
                def zsum(t, k):
                    p = frac[test]
                    var = k * np.sum(p * (1 - p))
                    return (np.sum(t[test]) - k * np.sum(p)) / np.sqrt(
                        var) if var > 0 else 0.0
                z = zsum(tot, K)
                res.count('aggregate-tests')
                if abs(z) > 6.5:
                    res.cls('confirmation_run')
                    tot3 = draws(4 * K)
                    if tot3 is not None and abs(zsum(tot3, 4 * K)) > 6.5:
                        res.viol('biased', tag + ':aggregate', 'total number '
                                 'of extra repeats off by z=%.1f then %.1f '
                                 '(boost %r)' % (z, zsum(tot3, 4 * K),
                                                 boost))
            res.cls('repeats>=2', max_rep >= 2)
            if zero > 0 or max_rep >= 2:
                nt.append((case_hash(case), bi))
        res.nontrivial = bool(nt)
        res.extra_nontrivial = nt
    finally:
        lab.close()
    return res


def replay(case):
    return run_case(case, K=case.get('K', 150))


def shard(ctx, tier, i, n):
    K = plan(tier)['K']
    hyp_generate(ctx, cases(), lambda c: run_case(c, K=K),
                 plan(tier)['examples'], case_timeout=240)
