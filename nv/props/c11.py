"""C11 - same seed, same result, however the likelihood is evaluated or
observed."""

import contextlib
import io
import json
import os
import subprocess
import sys

import numpy as np
from hypothesis import strategies as st

from nv.core import Result, hyp_generate, case_hash, base_env, PYTHON, VERIF
from nv import histories as hs
from nv import problems as pr
from nv import samplerlab as sl

ID = 'C11'
LEVEL = 'exploration'
TECHNIQUE = ('property-based testing (Hypothesis), metamorphic/differential: '
             'paired runs that differ in exactly one dimension the property '
             'calls invisible (incl. a schedule-controlled permuting pool '
             'and drawn accessor interleavings), SHA-256 digests compared at '
             'every batch boundary')
RULE = ('case = base (bit-exact likelihood family, configuration, seed) + '
        '2..4 variants, each differing in one dimension: same again (same '
        'process and a fresh interpreter process), scalar<->vectorised, '
        'likelihood pool none<->int 2..4<->external multiprocessing.Pool<->'
        'PermutingPool (map evaluates items in a Hypothesis-seeded '
        'permutation, returns results in input order), verbose, checkpoint '
        'file on, and a drawn interleaving of read-only accessors between '
        'batches (log_z, n_eff, eta, f_live, posterior in 3 forms, '
        'shell_bound_occupation, deprecated wrappers, shell_association). '
        'Digest over posterior arrays, log_z, n_eff, n_like, shell lengths '
        'at every batch boundary. Non-trivial = pair whose run has >= 2 '
        'bounds and whose variant is not "same again", or an interleaving '
        'with >= 3 accessor calls; distinct by (case hash, variant).')
ASSUMPTIONS = [
    'real OS scheduling of worker pools is sampled (2-4 workers) and '
    'modelled by the permuting pool; it cannot be enumerated',
    'posterior(equal_weight=True) is documented to draw random numbers and '
    'is not in the accessor alphabet',
    'runs limited to 20-50 batches',
]
REQUIRED_CLASSES = ['vectorized', 'pool_int', 'pool_mp', 'pool_perm',
                    'verbose', 'file', 'accessors', 'same_process',
                    'fresh_process', 'bounds>=2', 'networks']

VARIANTS = ['same', 'fresh_process', 'vectorized', 'pool_int', 'pool_mp',
            'pool_perm', 'verbose', 'file', 'accessors', 'accessors',
            'pool_perm', 'vectorized']


def plan(tier):
    if tier == 'quick':
        return dict(shards=16, budget_s=85, examples=9)
    return dict(shards=16, budget_s=1000, examples=120)


@st.composite
def cases(draw):
    d = draw(st.integers(2, 4))
    spec = draw(pr.problem_specs(
        d=d, families=['gauss', 'twomax', 'banana', 'rfunnel', 'halfspace',
                       'stairs', 'wrap', 'slab'],
        blobs=['none', 'none', 'float', 'two', 'array'],
        priors=['identity', 'identity', 'inplace', 'Prior']))
    n_batch = draw(st.sampled_from([2, 3, 5, 8, 13]))
    cfg = draw(sl.configs(d, networks=(0, 0, 1), pools=('none',),
                          batch=st.just(n_batch), small_update=False,
                          vectorized=False,
                          max_live=int(min(80, max(4 * d + 4, 5 * n_batch)))))
    cfg['f_live'] = draw(st.sampled_from([0.8, 0.6, 0.3]))
    cfg['n_eff'] = draw(st.sampled_from([100, 1000]))
    if spec['family'] == 'wrap':
        cfg['periodic'] = [0]
    vs = []
    for _ in range(draw(st.integers(2, 4))):
        v = dict(kind=draw(st.sampled_from(VARIANTS)))
        if v['kind'] == 'pool_int':
            v['size'] = draw(st.integers(2, 4))
        if v['kind'] == 'pool_mp':
            v['size'] = draw(st.integers(2, 3))
        if v['kind'] == 'pool_perm':
            v['size'] = draw(st.integers(2, 5))
            v['seed'] = draw(st.integers(0, 2 ** 31))
        if v['kind'] == 'accessors':
            v['calls'] = draw(st.lists(st.lists(st.sampled_from(
                hs.ACCESSORS), max_size=3), min_size=4, max_size=12))
        vs.append(v)
    return dict(spec=spec, cfg=cfg, variants=vs,
                batches=draw(st.sampled_from([20, 30, 50])))


def stepped_digests(spec, cfg, n_batches, use_file=False, verbose=False,
                    accessor_calls=None, stop_at=None):
    """Run one batch at a time; return (digests, n_bounds, n_accessor)."""
    lab = sl.Lab(spec, cfg, use_file=use_file, log_calls=False,
                 verbose=verbose)
    out, n_acc = [], 0
    buf = io.StringIO()
    try:
        with contextlib.redirect_stdout(buf):
            for k in range(n_batches):
                ok = lab.step(1)
                s = lab.sampler
                if accessor_calls:
                    for name in accessor_calls[k % len(accessor_calls)]:
                        hs.call_accessor(s, name)
                        n_acc += 1
                out.append(sl.state_digest(s) + ':' + sl.posterior_digest(s))
                if stop_at is not None and out[-1] != stop_at[
                        min(k, len(stop_at) - 1)]:
                    break
                if ok:
                    break
        nb = len(lab.sampler.bounds)
    finally:
        lab.close()
    return out, nb, n_acc


def run_case(case):
    res = Result()
    spec, cfg, nbat = case['spec'], case['cfg'], case['batches']
    try:
        base, nb, _ = stepped_digests(spec, cfg, nbat)
    except AttributeError:
        raise
    except Exception as e:
        res.discard = 'base-run:%s' % type(e).__name__
        return res
    res.cls('bounds>=2', nb >= 2)
    res.cls('networks', cfg['n_networks'] > 0)
    nt = []
    for v in case['variants']:
        kind = v['kind']
        cfg2 = dict(cfg)
        kw = {}
        if kind == 'vectorized':
            cfg2['vectorized'] = True
        elif kind == 'pool_int':
            cfg2['pool'] = 'lint%d' % v['size']
        elif kind == 'pool_mp':
            cfg2['pool'] = 'lmp%d' % v['size']
        elif kind == 'pool_perm':
            cfg2['pool'] = dict(kind='perm', size=v['size'], seed=v['seed'])
        elif kind == 'verbose':
            kw['verbose'] = True
        elif kind == 'file':
            kw['use_file'] = True
        elif kind == 'accessors':
            kw['accessor_calls'] = v['calls']
        res.cls(kind if kind != 'same' else 'same_process')
        res.count('pairs')
        if kind == 'fresh_process':
            try:
                out = subprocess.run(
                    [PYTHON, '-m', 'nv.props.c11', json.dumps(
                        dict(spec=spec, cfg=cfg, batches=nbat))],
                    cwd=VERIF, env=base_env(), capture_output=True,
                    text=True, timeout=300)
                got = out.stdout.strip().split('\n')[-1]
            except subprocess.TimeoutExpired:
                continue
            if out.returncode != 0:
                raise RuntimeError('child failed: ' + out.stderr[-500:])
            if got != base[-1]:
                res.viol('differs', 'fresh_process', 'a fresh interpreter '
                         'process with the same seed gives a different '
                         'result')
            continue
        try:
            var, nb2, n_acc = stepped_digests(spec, cfg2, nbat, stop_at=base,
                                              **kw)
        except AttributeError:
            raise
        except Exception as e:
            res.viol('variant-raises', '%s:%s' % (kind, type(e).__name__),
                     'the %s variant raised %r, the base run did not' % (
                         kind, e))
            continue
        diff = next((i for i, (a, b) in enumerate(zip(base, var))
                     if a != b), None)
        if diff is None and len(var) != len(base):
            diff = min(len(var), len(base))
        if diff is not None:
            res.viol('differs', kind, 'results differ from batch boundary %d '
                     'of %d on (variant %r)' % (diff + 1, len(base), {
                         k: v[k] for k in v if k != 'calls'}))
        if (nb >= 2 and kind != 'same') or (kind == 'accessors' and
                                            n_acc >= 3):
            nt.append((case_hash(case), kind, json.dumps(v, sort_keys=True)))
    res.nontrivial = bool(nt)
    res.extra_nontrivial = nt
    return res


def replay(case):
    return run_case(case)


def shard(ctx, tier, i, n):
    hyp_generate(ctx, cases(), run_case, plan(tier)['examples'],
                 case_timeout=300, shrink_budget_s=90, max_shrink_buckets=2)


if __name__ == '__main__':
    # child mode: print the final digest of the base run
    from nv.core import setup_path
    setup_path()
    import warnings
    warnings.simplefilter('ignore')
    c = json.loads(sys.argv[1])
    dg, _, _ = stepped_digests(c['spec'], c['cfg'], c['batches'])
    print(dg[-1])
