"""C12 - exploration ends once; then history is append-only; discard is a
pure view."""

import hashlib

import numpy as np
import hypothesis
from hypothesis import settings, strategies as st, HealthCheck, Phase
from hypothesis.stateful import (RuleBasedStateMachine, rule, initialize,
                                 precondition, run_state_machine_as_test)

from nv.core import Result, derive_seed, with_timeout
from nv import histories as hs
from nv import problems as pr
from nv import samplerlab as sl
from nv import sampler_oracles as so

ID = 'C12'
LEVEL = 'exploration'
TECHNIQUE = ('stateful property-based testing (Hypothesis '
             'RuleBasedStateMachine): rules step / timeout-step / toggle / '
             'run-with-discard / resume / accessor; model of phase, '
             'append-only snapshots and the view recomputed from '
             'harness-recorded split indices, checked after every rule')
RULE = ('machine: @initialize draws problem + configuration (checkpoint file '
        'on, f_live large so that exploration ends early); rules step(k), '
        'step_timeout(k) (fake clock), toggle(v) at any boundary, '
        'run_with_discard(v,k), resume(), accessor(name); 12..40 rules per '
        'history. After every rule: explored monotone, bounds frozen '
        '(count and contains() on a probe set), every shell keeps >= 1 row, '
        'stored arrays extend the previous snapshot byte-for-byte, the view '
        'equals the rows after the recorded split (statistics via the C02 '
        'recomputation), statistics return bit-for-bit when toggling back, '
        'a resumed object is self-consistent and equals the in-memory one '
        'once given the same flag. Non-trivial = history with a toggle after '
        'exploration followed by >= 1 batch, or toggle -> batch -> resume; '
        'distinct by hash of the executed trace.')
ASSUMPTIONS = [
    'a toggle that was never followed by a checkpoint write is not expected '
    'to survive a resume; the resumed object must be self-consistent and '
    'agree bit-for-bit after the flag is set to the in-memory value',
]
REQUIRED_CLASSES = ['toggle_after_exploration_then_batch',
                    'toggle_batch_resume', 'resume_after_exploration',
                    'explored', 'toggle_before_exploration',
                    'run_with_discard']


def plan(tier):
    if tier == 'quick':
        return dict(shards=16, budget_s=85, examples=24, steps=30)
    return dict(shards=16, budget_s=1000, examples=300, steps=45)


def stats_digest(s):
    h = hashlib.sha256()
    for k in ('shell_n', 'shell_n_sample', 'shell_n_eff', 'shell_log_l',
              'shell_log_v'):
        h.update(np.ascontiguousarray(getattr(s, k)).tobytes())
    lz = s.log_z
    h.update(repr(None if lz is None else np.float64(lz).tobytes()).encode())
    h.update(np.float64(s.n_eff).tobytes())
    h.update(sl.posterior_digest(s).encode())
    return h.hexdigest()


class Interp:
    """Executes a trace op by op and checks the C12 invariants after each."""

    def __init__(self, spec, cfg):
        self.res = Result()
        self.split = so.SplitRecord()
        # the end of exploration is recorded at the first event that sees
        # explored=True (the full write right after it), i.e. before any
        # sampling-phase row exists
        self.lab = sl.Lab(
            spec, cfg, use_file=True, clock=True,
            observers=[lambda name, lab, a, out: self.split.observe(
                lab.sampler)])
        self.spec, self.cfg = spec, cfg
        self.trace = []
        self.was_explored = False
        self.frozen = None
        self.prev = None
        self.by_state = {}
        self.dead = False
        self.flags = dict(tog_after=False, tog_after_batch=False,
                          tog_batch_resume=False, resume_after=False,
                          tog_before=False, rwd=False)
        self._pending_toggle = False      # toggle after exploration seen
        self._toggle_then_batch = False
        self.n_batches_at_toggle = None
        self.dirty_flag = False   # toggled since the last checkpoint write

    # -- operations ---------------------------------------------------------
    def apply(self, op):
        if self.dead:
            return
        self.trace.append(op)
        lab, s = self.lab, self.lab.sampler
        name = op[0]
        b0 = lab.n_batches
        try:
            if name == 'step':
                for _ in range(op[1]):
                    if lab.capped(12, 170):
                        break
                    if lab.step(1):
                        break
            elif name == 'timeout':
                if not lab.capped(12, 170):
                    lab.step_timeout(op[1])
            elif name == 'rwd':
                self.flags['rwd'] = True
                for _ in range(op[2]):
                    if lab.capped(12, 170):
                        break
                    if lab.step(1, discard_exploration=bool(op[1])):
                        break
            elif name == 'toggle':
                if s.explored:
                    self.flags['tog_after'] = True
                    self._pending_toggle = True
                else:
                    self.flags['tog_before'] = True
                key = (bool(s.discard_exploration), int(s.n_like))
                if s.n_like > 0:
                    self.by_state.setdefault(key, stats_digest(s))
                s.discard_exploration = bool(op[1])
                self.dirty_flag = True
            elif name == 'resume':
                if s.n_like > 0:
                    self.do_resume()
            elif name == 'accessor':
                if s.n_like > 0:
                    hs.call_accessor(s, op[1])
        except AttributeError:
            raise
        except Exception as e:
            import traceback
            tb = traceback.extract_tb(e.__traceback__)
            if name in ('toggle', 'accessor') and any(
                    '/nautilus/' in f.filename for f in tb):
                self.res.viol('operation-raises', '%s:%s' % (
                    name, type(e).__name__), repr(e))
            else:
                self.res.discard = 'run:%s:%s' % (name, type(e).__name__)
            self.dead = True
            return
        if lab.n_batches > b0:
            self.dirty_flag = False     # every batch rewrites the checkpoint
            if self._pending_toggle:
                self._toggle_then_batch = True
                self.flags['tog_after_batch'] = True
        self.check('after-' + name)

    def do_resume(self):
        lab = self.lab
        old = lab.sampler
        want_flag = bool(old.discard_exploration)
        dirty = self.dirty_flag
        before = stats_digest(old) if old.n_like > 0 else None
        if old.explored:
            self.flags['resume_after'] = True
        if self._toggle_then_batch:
            self.flags['tog_batch_resume'] = True
        try:
            lab.resume()
        except AttributeError:
            raise
        except Exception as e:
            self.res.viol('resume-raises', type(e).__name__, repr(e))
            self.dead = True
            return
        s = lab.sampler
        # (a) self-consistent under its own flag: checked by self.check()
        r = Result()
        Result._latest = self.res
        so.check_estimators(s, r, 'resumed', self.split)
        for v in r.violations:
            self.res.viol('resumed-inconsistent', v['clause'], v['detail'])
        if r.violations:
            self.dead = True
            return
        # (b) nothing toggled since the last write: identical object
        if not dirty and before is not None:
            if bool(s.discard_exploration) != want_flag:
                self.res.viol('resume-flag', 'lost', 'flag %r in memory, %r '
                              'after resume (a batch was written since the '
                              'toggle)' % (want_flag,
                                           bool(s.discard_exploration)))
            elif stats_digest(s) != before:
                self.res.viol('resume-differs', 'statistics', 'statistics or'
                              ' posterior differ after resume')
        # (c) with the same flag the view is the same, bit for bit
        try:
            s.discard_exploration = want_flag
        except Exception as e:
            self.res.viol('operation-raises', 'toggle-after-resume:%s' %
                          type(e).__name__, repr(e))
            self.dead = True
            return
        if before is not None and stats_digest(s) != before:
            self.res.viol('resume-differs', 'after-setting-flag', 'same '
                          'stored samples and flag, different statistics')

    # -- invariants ---------------------------------------------------------
    def check(self, where):
        s, res = self.lab.sampler, self.res
        if s.n_like == 0:
            return
        self.split.observe(s)
        res.count('invariant-checks')
        if self.was_explored and not s.explored:
            res.viol('exploration-resumed', where, 'explored went back to '
                     'False')
        if s.explored:
            self.was_explored = True
            nb = len(s.bounds)
            if self.frozen is None:
                rng = np.random.default_rng(len(self.trace))
                P = np.vstack([rng.random((300, s.n_dim))] + [
                    p[:40] for p in s.points])
                self.frozen = (nb, P, [np.asarray(b.contains(P))
                                       for b in s.bounds])
            else:
                nb0, P, ans = self.frozen
                if nb != nb0:
                    res.viol('bounds-not-frozen', where, '%d bounds at the '
                             'end of exploration, %d now' % (nb0, nb))
                    self.dead = True
                    return
                for i, b in enumerate(s.bounds):
                    if not np.array_equal(np.asarray(b.contains(P)), ans[i]):
                        res.viol('bounds-not-frozen', where, 'bound %d '
                                 'answers contains() differently' % i)
                        break
            for i, p in enumerate(s.points):
                if len(p) < 1:
                    res.viol('empty-shell', where, 'shell %d has no stored '
                             'sample after exploration' % i)
            # append-only
            cur = [(np.array(p, copy=True), np.array(l, copy=True),
                    None if s.blobs is None else np.array(s.blobs[i],
                                                          copy=True))
                   for i, (p, l) in enumerate(zip(s.points, s.log_l))]
            if self.prev is not None and len(self.prev) == len(cur):
                for i, (a, b) in enumerate(zip(self.prev, cur)):
                    n = len(a[0])
                    ok = (len(b[0]) >= n and
                          a[0].tobytes() == b[0][:n].tobytes() and
                          a[1].tobytes() == b[1][:n].tobytes() and
                          (a[2] is None or
                           a[2].tobytes() == b[2][:n].tobytes()))
                    if not ok:
                        res.viol('not-append-only', where, 'shell %d: earlier'
                                 ' rows altered, reordered or removed' % i)
                        break
            self.prev = cur
        # view and statistics
        so.check_estimators(s, res, where, self.split)
        if s.explored and self.split.start is not None and \
                self.spec['prior'] == 'identity' and \
                len(self.split.start) == len(s.points):
            st_ = self.split.start if s.discard_exploration else \
                [0] * len(s.points)
            want = np.concatenate([p[a:] for p, a in zip(s.points, st_)])
            try:
                got = s.posterior()[0]
                if (len(want) == 0 and len(got) != 0) or (len(want) > 0 and (
                        got.shape != want.shape or
                        not np.array_equal(got, want))):
                    res.viol('view-rows', where, 'posterior() does not show '
                             'exactly the rows %s the split' % (
                                 'after' if s.discard_exploration else
                                 'on both sides of'))
            except Exception as e:
                res.viol('posterior-raises', where, repr(e))
        # purity: same flag and same stored samples -> same statistics
        key = (bool(s.discard_exploration), int(s.n_like))
        dg = stats_digest(s)
        if key in self.by_state and self.by_state[key] != dg:
            res.viol('view-not-pure', where, 'statistics differ from an '
                     'earlier visit of the same view over the same samples')
        self.by_state[key] = dg

    def finish(self):
        self.lab.close()
        f, res = self.flags, self.res
        s = self.lab.sampler
        res.cls('explored', self.was_explored)
        res.cls('toggle_after_exploration_then_batch', f['tog_after_batch'])
        res.cls('toggle_batch_resume', f['tog_batch_resume'])
        res.cls('resume_after_exploration', f['resume_after'])
        res.cls('toggle_before_exploration', f['tog_before'])
        res.cls('run_with_discard', f['rwd'])
        res.nontrivial = bool(f['tog_after_batch'] or f['tog_batch_resume'])
        return res


def run_trace(case):
    it = Interp(case['spec'], case['cfg'])
    try:
        for op in case['trace']:
            it.apply(op)
    finally:
        res = it.finish()
    return res


def replay(case):
    return run_trace(case)


@st.composite
def setups(draw):
    d = draw(st.integers(2, 4))
    spec = draw(pr.problem_specs(
        d=d, families=['gauss', 'twomax', 'banana', 'halfspace', 'stairs',
                       'wrap', 'slab', 'rfunnel'],
        blobs=['none', 'none', 'float', 'two'], priors=['identity']))
    n_batch = draw(st.sampled_from([2, 3, 5, 8, 13, 20]))
    cfg = draw(sl.configs(d, networks=(0, 0, 0, 1), pools=('none',),
                          batch=st.just(n_batch), small_update=False,
                          max_live=int(min(100, max(4 * d + 4, 8 * n_batch)))))
    cfg['f_live'] = draw(st.sampled_from([0.8, 0.5, 0.3]))
    cfg['n_eff'] = draw(st.sampled_from([300, 1000, 3000]))
    cfg['n_shell'] = draw(st.sampled_from([1, 5, 20]))
    return spec, cfg


def make_machine(ctx, tier):
    p = plan(tier)

    quota = [p['examples']]
    stop = ctx.extra.setdefault('_stop', [False])

    class Machine(RuleBasedStateMachine):
        def __init__(self):
            super().__init__()
            self.it = None

        @initialize(setup=setups(),
                    ff=st.sampled_from([0, 0, 30, 60, 100, 150]))
        def init(self, setup, ff):
            # a history is executed by the shard owning the hash of its
            # set-up (all Hypothesis runs start with the same simplest
            # examples whatever the seed); deterministic, so data generation
            # stays reproducible
            from nv.core import case_hash
            if int(case_hash([setup[0], setup[1], ff]), 16) % \
                    ctx.n_shards != ctx.shard % ctx.n_shards:
                return
            if quota[0] <= 0:
                # this shard has executed its share: end the Hypothesis run
                # (never alter what is drawn: that would be flaky generation)
                stop[0] = True
                raise BudgetExhausted()
            quota[0] -= 1
            self.it = Interp(*setup)
            if ff:
                # fast-forward so that most histories reach the end of
                # exploration and spend their rules in the sampling phase
                self.apply(['step', ff])

        def ok(self):
            # must be a deterministic function of the choices made so far
            # (Hypothesis checks that data generation is reproducible): the
            # wall-clock budget is therefore NOT consulted here
            return self.it is not None and not self.it.dead

        def apply(self, op):
            if ctx.out_of_time():
                # ends the whole Hypothesis run (caught in shard()); results
                # of all finished histories are already recorded
                raise BudgetExhausted()
            self.it.apply(op)

        @precondition(lambda self: not self.ok())
        @rule()
        def idle(self):
            # keeps Hypothesis going for histories this shard does not own
            # or that have ended (a machine without enabled rules is an error)
            pass

        @precondition(lambda self: self.ok())
        @rule(k=st.sampled_from([1, 1, 2, 3, 5, 8]))
        def step(self, k):
            self.apply(['step', k])

        @precondition(lambda self: self.ok())
        @rule(k=st.sampled_from([0, 1, 2, 4]))
        def step_timeout(self, k):
            self.apply(['timeout', k])

        @precondition(lambda self: self.ok())
        @rule(v=st.booleans())
        def toggle(self, v):
            self.apply(['toggle', v])

        @precondition(lambda self: self.ok())
        @rule(v=st.booleans(), k=st.sampled_from([1, 2, 5]))
        def run_with_discard(self, v, k):
            self.apply(['rwd', v, k])

        @precondition(lambda self: self.ok() and
                      self.it.lab.sampler.n_like > 0)
        @rule()
        def resume(self):
            self.apply(['resume'])

        @precondition(lambda self: self.ok())
        @rule(name=st.sampled_from(hs.ACCESSORS))
        def accessor(self, name):
            self.apply(['accessor', name])

        def teardown(self):
            if self.it is None:
                return
            res = self.it.finish()
            case = dict(spec=self.it.spec, cfg=self.it.cfg,
                        trace=self.it.trace)
            if self.it.trace:
                ctx.record(case, res)

    return Machine


class BudgetExhausted(BaseException):
    pass


def shard(ctx, tier, i, n):
    try:
        _shard(ctx, tier, i, n)
    except BaseException:
        # after the budget ran out every rule raises BudgetExhausted, which
        # Hypothesis may report as such or wrapped (Flaky...); before that,
        # exceptions are real harness errors
        if not (ctx.out_of_time() or ctx.extra.get('_stop', [False])[0]):
            raise
        if ctx.out_of_time():
            ctx.notes.append('budget exhausted: generation stopped early')
    ctx.extra.pop('_stop', None)


def _shard(ctx, tier, i, n):
    p = plan(tier)
    Machine = make_machine(ctx, tier)
    sd = derive_seed(ctx.seed, ID, i)
    run_state_machine_as_test(
        hypothesis.seed(sd)(Machine),
        settings=settings(max_examples=p['examples'] * ctx.n_shards,
                          stateful_step_count=p['steps'], deadline=None,
                          database=None, phases=[Phase.generate],
                          suppress_health_check=list(HealthCheck),
                          report_multiple_bugs=False))


def minimize(case, bucket):
    """Greedy trace shortening (drop ops while the bucket still fails)."""
    trace = list(case['trace'])

    def fails(t):
        r = run_trace(dict(spec=case['spec'], cfg=case['cfg'], trace=t))
        for v in r.violations:
            if v['clause'] + '/' + v['component'] == bucket:
                return v['detail']
        return None

    detail = fails(trace)
    if detail is None:
        return None, None
    import time
    t_end = time.time() + 120
    changed = True
    while changed and time.time() < t_end:
        changed = False
        for j in range(len(trace)):
            t2 = trace[:j] + trace[j + 1:]
            d2 = fails(t2)
            if d2 is not None:
                trace, detail, changed = t2, d2, True
                break
            if time.time() > t_end:
                break
    return dict(spec=case['spec'], cfg=case['cfg'], trace=trace), detail
