"""C06 - a kill at any instant leaves an atomic, loadable checkpoint."""

import hashlib
import io
import json
import os
import shutil
import subprocess
import tempfile

import numpy as np
from hypothesis import strategies as st

from nv.core import (Result, hyp_generate, case_hash, base_env, PYTHON,
                     VERIF)
from nv import problems as pr
from nv import samplerlab as sl
from nv.crash import trace as tr
from nv.oracles import h5_logical, h5_diff, h5_digest

ID = 'C06'
LEVEL = 'fault_enumeration'
TECHNIQUE = ('fault enumeration over Hypothesis-generated runs: every '
             'file-mutating system call on the checkpoint path(s) (strace) '
             'is a crash point; the file a kill would leave is rebuilt by '
             'prefix replay and compared (logical HDF5 content) with the '
             'snapshots of completed checkpoints; sampled real SIGKILLs '
             'validate the model; sampled crash states are resumed and must '
             'reproduce the uninterrupted result')
RULE = ('run = Hypothesis-drawn tiny checkpointed computation (exploration '
        'with bound insertions, end of exploration, sampling phase; '
        'networks / blobs / periodic on and off) executed in a child under '
        'strace -f; EVERY mutating syscall (pwrite64, write, unlink, rename,'
        ' truncate, sendfile, O_TRUNC/O_CREAT opens ...) on any path of the '
        'run\'s private directory is a crash point k (exhaustive per run). '
        'F_k must be: absent or == S_1 before the first checkpoint '
        'completes; afterwards present, readable, and logically equal to '
        'the last completed snapshot or the one being written. Non-trivial '
        '= crash point strictly inside a checkpoint operation (not its last '
        'syscall); distinct by (run hash, k).')
ASSUMPTIONS = [
    'process kill, not power loss: the page cache survives, so the file '
    'equals the effect of the syscalls issued so far (validated against '
    'real SIGKILLs injected by strace: traces_validated_against_impl)',
    'the syscall sequence of a seeded run is deterministic',
]
EVALUATIONS_FROM_COUNT = 'crash-points'
COVERAGE_FROM_COUNTS = ['traces_validated_against_impl']
REQUIRED_CLASSES = ['inside_full_write', 'inside_shell_update',
                    'before_first_checkpoint', 'explored', 'bounds>=2',
                    'real_kill_validated', 'resumed_from_crash_state']


def plan(tier):
    if tier == 'quick':
        return dict(shards=16, budget_s=50, examples=2, resumes=2, kills=1)
    return dict(shards=16, budget_s=900, examples=24, resumes=6, kills=4)


@st.composite
def cases(draw):
    d = draw(st.integers(2, 3))
    spec = draw(pr.problem_specs(
        d=d, families=['gauss', 'twomax', 'banana', 'halfspace', 'wrap'],
        blobs=['none', 'none', 'float', 'two', 'array'],
        priors=['identity']))
    n_batch = draw(st.sampled_from([3, 5, 8]))
    cfg = draw(sl.configs(d, networks=(0, 0, 1), pools=('none',),
                          batch=st.just(n_batch), small_update=False,
                          vectorized=True,
                          max_live=int(max(4 * d + 4, 4 * n_batch))))
    cfg['f_live'] = draw(st.sampled_from([0.8, 0.6, 0.4]))
    cfg['n_eff'] = draw(st.sampled_from([100, 1000]))
    if spec['family'] == 'wrap':
        cfg['periodic'] = [0]
    if draw(st.integers(0, 3)) == 0:
        # the checkpoint path given to the sampler is a symbolic link (into a
        # scratch area, as on clusters): see prep_work
        cfg['ext'] = 'link'
    return dict(spec=spec, cfg=cfg,
                batches=draw(st.sampled_from([10, 14, 20])),
                pick=draw(st.integers(0, 2 ** 31)))


def logical_of_bytes(b):
    import h5py
    with h5py.File(io.BytesIO(b), 'r') as f:
        return h5_logical(f)


def child(case_path, work, snaps, mode=None, trace_path=None, inject=None,
          cwd=None):
    cmd = [PYTHON, '-m', 'nv.crash.child', case_path, work, snaps]
    if mode:
        cmd.append(mode)
    env = base_env()
    if trace_path:
        return tr.run_traced(cmd, trace_path, env=env, inject=inject)
    return subprocess.run(cmd, env=env, capture_output=True, text=True,
                          cwd=cwd or VERIF, timeout=600)


def prep_work(work, case):
    """State of the run directory before the script starts.  For 'link' the
    checkpoint path is a symbolic link to a file that does not exist yet in a
    sub-directory; created here, outside the traced child, so the syscall
    model (which is keyed by path name) sees only the sampler's own
    operations on that name."""
    if case['cfg'].get('ext') == 'link':
        os.makedirs(os.path.join(work, 'store'), exist_ok=True)
        os.symlink(os.path.join('store', 'real.hdf5'),
                   os.path.join(work, sl.ckpt_name(case['cfg'])))


def run_case(case, n_resumes=3, n_kills=2):
    res = Result()
    base = tempfile.mkdtemp(prefix='nvc06-',
                            dir=os.environ.get('NV_SCRATCH') or None)
    try:
        work = os.path.join(base, 'work')
        snaps = os.path.join(base, 'snaps')
        cpath = os.path.join(base, 'case.json')
        tpath = os.path.join(base, 'trace.txt')
        os.makedirs(work)
        prep_work(work, case)
        with open(cpath, 'w') as f:
            json.dump(case, f)
        out = child(cpath, work, snaps, trace_path=tpath)
        if out.returncode != 0 or not os.path.exists(
                os.path.join(snaps, 'result.json')):
            if 'AttributeError' in out.stderr or 'strace' in out.stderr[:200]:
                raise RuntimeError('traced child failed: ' + out.stderr[-800:])
            res.discard = 'child-run-failed'
            return res
        ref = json.load(open(os.path.join(snaps, 'result.json')))
        ckpt = os.path.join(work, sl.ckpt_name(case['cfg']))
        calls, events, model = tr.mutation_list(tpath, work, VERIF)
        os.remove(tpath)
        if model.unmodelled:
            raise RuntimeError('unmodelled file operation: %r' %
                               model.unmodelled[:3])
        real_final = open(ckpt, 'rb').read()
        if bytes(model.files.get(ckpt, b'')) != real_final:
            raise RuntimeError('prefix model does not reproduce the final '
                               'checkpoint file byte-for-byte')
        validated = 1
        n_ops = ref['n_ops']
        S = {}
        for j in range(1, n_ops + 1):
            import h5py
            with h5py.File(os.path.join(snaps, 'S_%d.hdf5' % j), 'r') as f:
                S[j] = h5_digest(h5_logical(f))
        # kind of every checkpoint operation (full write <=> the file is
        # created / replaced: first mutating call of the op is not a pwrite)
        op_first = {}
        for e in events:
            op_first.setdefault(e['j'] + 1, e)
        last_of_op = {}
        for e in events:
            last_of_op[e['j'] + 1] = e['i']

        def op_kind(j):
            ks = ref.get('kinds', [])
            if 1 <= j <= len(ks):
                return 'full-write' if ks[j - 1] == 'write' else \
                    'shell-update'
            return 'unknown'

        cache = {}
        nt = []
        key = case_hash(case)
        states = {}
        n_cp = 0
        for ev, b, mdl in tr.states_after_each(calls, events, work, VERIF,
                                               ckpt):
            if ev is None:
                continue
            n_cp += 1
            j = ev['j']
            kind = op_kind(j + 1)
            inside = ev['i'] != last_of_op.get(j + 1)
            res.cls('inside_full_write', inside and kind == 'full-write')
            res.cls('inside_shell_update', inside and kind == 'shell-update')
            res.cls('before_first_checkpoint', j == 0)
            if inside:
                nt.append((key, n_cp))
            states[n_cp] = [ev, b, inside, kind, None]
            if b is None:
                if j >= 1:
                    res.viol('missing-file', kind, 'crash point %d (syscall '
                             '%s during checkpoint operation %d of %d, a %s):'
                             ' no checkpoint file although %d checkpoint(s) '
                             'had completed' % (n_cp, ev['name'], j + 1,
                                                n_ops, kind, j))
                continue
            h = hashlib.sha256(b).digest()
            if h not in cache:
                try:
                    cache[h] = h5_digest(logical_of_bytes(b))
                except Exception as e:
                    cache[h] = 'unreadable:%s' % type(e).__name__
            lg = cache[h]
            allowed = [S[x] for x in (j, j + 1) if x in S]
            for x in (j, j + 1):
                if x in S and S[x] == lg:
                    states[n_cp][4] = x      # which snapshot the file equals
            if lg.startswith('unreadable'):
                res.viol('unreadable-file', kind, 'crash point %d (syscall %s'
                         ' during checkpoint operation %d of %d, a %s): the '
                         'file cannot be opened/read (%s)' % (
                             n_cp, ev['name'], j + 1, n_ops, kind, lg))
            elif lg not in allowed:
                res.viol('mixed-state', kind, 'crash point %d (syscall %s '
                         'during checkpoint operation %d of %d, a %s): file '
                         'content is neither the last completed state nor '
                         'the one being written' % (
                             n_cp, ev['name'], j + 1, n_ops, kind))
        res.count('crash-points', n_cp)
        res.cls('explored', ref['explored'])
        res.cls('bounds>=2', ref['n_bounds'] >= 2)
        res.cls('networks', case['cfg']['n_networks'] > 0)
        res.cls('blobs', case['spec']['blob'] != 'none')
        res.cls('ext_' + case['cfg'].get('ext', 'hdf5'))

        rng = np.random.default_rng(case['pick'])
        # ---- (d) resume from the directory exactly as a kill would leave it
        inside_ids = [k for k, v in states.items() if v[2]]
        picks = []
        for want in ('full-write', 'shell-update'):
            c = [k for k in inside_ids if states[k][3] == want]
            if c:
                picks.append(int(rng.choice(c)))
        while len(picks) < n_resumes and inside_ids:
            picks.append(int(rng.choice(inside_ids)))
        clean = {}
        for k in picks[:n_resumes]:
            d = os.path.join(base, 'crash-%d' % k)
            w2 = os.path.join(d, 'work')
            os.makedirs(w2)
            # rebuild the whole private directory at crash point k
            for ev, b, mdl in tr.states_after_each(calls, events, work,
                                                   VERIF, ckpt):
                if ev is not None and ev is states[k][0]:
                    for p, content in mdl.files.items():
                        rel = os.path.relpath(p, work)
                        os.makedirs(os.path.dirname(os.path.join(w2, rel)),
                                    exist_ok=True)
                        with open(os.path.join(w2, rel), 'wb') as f:
                            f.write(bytes(content))
                    break
            out = child(cpath, w2, d, mode='resume')
            res.count('resumes-from-crash-state')
            res.cls('resumed_from_crash_state')
            rp = os.path.join(d, 'result-resume.json')
            ev = states[k][0]
            if out.returncode != 0 or not os.path.exists(rp):
                err = (out.stderr.strip().split('\n') or ['?'])[-1][:200]
                res.viol('resume-after-kill-fails', states[k][3],
                         're-running the script after a kill at crash point '
                         '%d (inside a %s) fails: %s' % (k, states[k][3],
                                                          err))
            else:
                # the continued computation must be the one obtained from
                # the clean snapshot the file is logically equal to (or, with
                # no file yet, a fresh start = the uninterrupted run)
                got = json.load(open(rp))
                x = states[k][4]
                if states[k][1] is None:
                    want = ref['digest']
                elif x is None:
                    want = None      # already reported as mixed/unreadable
                else:
                    if x not in clean:
                        d3 = os.path.join(base, 'clean-%d' % x)
                        os.makedirs(os.path.join(d3, 'work'))
                        shutil.copyfile(
                            os.path.join(snaps, 'S_%d.hdf5' % x),
                            os.path.join(d3, 'work',
                                         sl.ckpt_name(case['cfg'])))
                        o3 = child(cpath, os.path.join(d3, 'work'), d3,
                                   mode='resume')
                        r3 = os.path.join(d3, 'result-resume.json')
                        clean[x] = json.load(open(r3))['digest'] if (
                            o3.returncode == 0 and os.path.exists(r3)) \
                            else 'clean-resume-failed'
                        shutil.rmtree(d3, ignore_errors=True)
                    want = clean[x]
                if want is not None and got['digest'] != want:
                    res.viol('resume-after-kill-differs', states[k][3],
                             'continuing from the directory a kill at crash '
                             'point %d leaves gives a different result than '
                             'continuing from the completed checkpoint it '
                             'holds' % k)
            shutil.rmtree(d, ignore_errors=True)

        # ---- model validation: really kill the child at a pwrite
        pw = [k for k, v in states.items() if v[0]['name'] == 'pwrite64']
        for k in [int(x) for x in rng.choice(pw, size=min(n_kills, len(pw)),
                                             replace=False)] if pw else []:
            i = states[k][0]['i']
            nth = sum(1 for c in calls[:i + 1] if c[0] == 'pwrite64')
            d = os.path.join(base, 'kill-%d' % k)
            w2 = os.path.join(d, 'work')
            os.makedirs(w2)
            prep_work(w2, case)
            t2 = os.path.join(d, 'trace.txt')
            child(cpath, w2, os.path.join(d, 'snaps'), trace_path=t2,
                  inject=('pwrite64', nth))
            f2 = os.path.join(w2, sl.ckpt_name(case['cfg']))
            got = open(f2, 'rb').read() if os.path.exists(f2) else None
            want = [states[k][1]] + ([states[k - 1][1]] if k - 1 in states
                                     else [None])
            if got not in want:
                raise RuntimeError('a real SIGKILL at pwrite64 #%d left a '
                                   'file that the prefix model does not '
                                   'predict' % nth)
            validated += 1
            res.cls('real_kill_validated')
            shutil.rmtree(d, ignore_errors=True)
        res.count('traces_validated_against_impl', validated)
        res.nontrivial = bool(nt)
        res.extra_nontrivial = nt[:100000]
        res.count('runs')
    finally:
        shutil.rmtree(base, ignore_errors=True)
    return res


def replay(case):
    return run_case(case, n_resumes=case.get('resumes', 3),
                    n_kills=case.get('kills', 1))


def shard(ctx, tier, i, n):
    p = plan(tier)

    def rc(case):
        return run_case(case, n_resumes=p['resumes'], n_kills=p['kills'])
    hyp_generate(ctx, cases(), rc, p['examples'], case_timeout=400,
                 shrink_budget_s=60, max_shrink_buckets=1)
    ctx.exhaustive = True
