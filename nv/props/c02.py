"""C02 - log_z, n_eff, eta and weights are exactly the estimators of the
stored samples."""

import numpy as np

from nv.core import Result, hyp_generate
from nv import histories as hs
from nv import sampler_oracles as so

ID = 'C02'
LEVEL = 'exploration'
TECHNIQUE = ('property-based testing (Hypothesis): generated likelihoods x '
             'configurations x run/resume/toggle histories; every estimator '
             're-derived independently from the raw stored arrays at every '
             'batch boundary')
RULE = ('case as in C01 plus discard_exploration toggles and -inf families '
        '(half space, thin slab); at every add_bound / add_samples / '
        'write / write_shell_update return and after every operation the '
        'bookkeeping alignment, per-shell counts (n <= N), shell volumes, '
        'log_z, n_eff, eta and posterior() weights/order are recomputed from '
        'points/log_l/bounds[i].log_v/proposal counters; the split between '
        'exploration and sampling rows comes from the harness\'s own record. '
        'Non-trivial = an observation with >= 2 shells and (a transfer '
        'happened, or -inf rows present, or discard view on, or the object '
        'was resumed, or empty shells were removed); distinct by case hash.')
ASSUMPTIONS = [
    'tolerance 1e-9 relative on log quantities (different summation order), '
    '1e-7 on n_eff / eta',
    'n_eff and weights are compared only when the total weight is positive',
]
REQUIRED_CLASSES = ['transfer', 'neg_inf_rows', 'discard_view', 'resumed',
                    'explored', 'toggled', 'empty_shells_removed']


def plan(tier):
    if tier == 'quick':
        return dict(shards=16, budget_s=85, examples=14)
    return dict(shards=16, budget_s=1000, examples=220)


def strategy():
    return hs.cases(
        families=['gauss', 'twomax', 'banana', 'funnel', 'halfspace',
                  'halfspace', 'stairs', 'constant', 'wrap', 'slab', 'slab'],
        blobs=['none', 'float', 'two'], priors=['identity'],
        networks=(0, 0, 0, 1), pools=('none',),
        hist_kw=dict(resume=True, toggles=True, max_ops=7))


def run_case(case):
    res = Result()
    split = so.SplitRecord()
    st = dict(transfer=False, neginf=False, discard=False, nt=False,
              events=0, removed=False, max_bounds=0)

    def observe(lab, where, posterior):
        s = lab.sampler
        if s.n_like == 0:
            return
        split.observe(s)
        st['events'] += 1
        est = so.check_estimators(s, res, where, split,
                                  want_posterior=posterior)
        nb = len(s.bounds)
        if s.explored and nb < st['max_bounds']:
            st['removed'] = True
        st['max_bounds'] = max(st['max_bounds'], nb)
        ni = any(np.any(np.asarray(l) == -np.inf) for l in s.log_l)
        tr = nb > 1 and np.any(np.asarray(s.shell_t) == -1)
        dv = bool(s.explored and s.discard_exploration)
        st['transfer'] |= bool(tr)
        st['neginf'] |= bool(ni)
        st['discard'] |= dv
        if nb >= 2 and (tr or ni or dv or lab.stats['resumes'] > 0 or
                        st['removed']):
            st['nt'] = True

    def on_event(name, lab, args, out):
        observe(lab, name, posterior=(name != 'add_bound'))
        # the state a new process would load from the file right now carries
        # statistics that are the estimators of the samples it holds
        if name in ('write', 'write_shell_update'):
            st['writes'] = st.get('writes', 0) + 1
            if st['writes'] % 6 == 1 and st.get('peeks', 0) < 12:
                st['peeks'] = st.get('peeks', 0) + 1
                try:
                    s2 = lab.peek()
                except AttributeError:
                    raise
                except Exception as e:
                    res.viol('checkpoint-unloadable', name, repr(e))
                    return
                so.check_estimators(s2, res, 'file-after-' + name, split)

    def on_op(lab, op, out):
        observe(lab, 'after-' + op[0], posterior=True)

    lab = hs.execute(case, res, on_event=on_event, on_op=on_op, use_file=True)
    s = lab.sampler
    res.cls('transfer', st['transfer'])
    res.cls('neg_inf_rows', st['neginf'])
    res.cls('discard_view', st['discard'])
    res.cls('resumed', lab.stats['resumes'] > 0)
    res.cls('toggled', lab.stats['toggles'] > 0)
    res.cls('explored', bool(s.explored))
    res.cls('finished', lab.stats['finished'])
    res.cls('empty_shells_removed', st['removed'])
    res.cls('networks', case['cfg']['n_networks'] > 0)
    res.count('observation-instants', st['events'])
    res.count('checkpoint-loads', st.get('peeks', 0))
    res.nontrivial = st['nt']
    return res


def replay(case):
    return run_case(case)


def shard(ctx, tier, i, n):
    hyp_generate(ctx, strategy(), run_case, plan(tier)['examples'],
                 case_timeout=150)
