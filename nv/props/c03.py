"""C03 - posterior rows are faithful (point, log-likelihood, blob) triples,
once each."""

import numpy as np

from nv.core import Result, hyp_generate
from nv import histories as hs
from nv import sampler_oracles as so

ID = 'C03'
LEVEL = 'exploration'
TECHNIQUE = ('property-based testing (Hypothesis): evaluation modes x blob '
             'dtypes x batch sizes (incl. 1) x in-place priors x pools x '
             'histories; every posterior row compared with the call log of '
             'an instrumented pure likelihood / re-evaluated')
RULE = ('case = problem (10 likelihood families) x blob kind {none, float, '
        'int, bool, S8 bytes, two scalars (inferred structured), explicit '
        'structured blobs_dtype, single dtype for two blobs, array blob} x '
        'prior kind {identity fn, affine fn modifying its argument in place, '
        'fn returning a dict, nautilus.Prior with fixed+linked keys (dict '
        'and array form)} x scalar/vectorised x batch size {1,1,2,3,..40} x '
        'likelihood pool {none, int 2, external multiprocessing.Pool(2)} x '
        'history with steps, resumes, discard toggles. After every '
        'operation every row of posterior(return_blobs=True) must occur in '
        'the call log with exactly the logged log L and blob (pool modes: '
        're-evaluated bit-for-bit), rows pairwise distinct, lengths and '
        'dtype right, equal-weight (boost<=1) rows distinct, dict form '
        'consistent. Non-trivial = blobs present and (batch size 1, or >=1 '
        'transfer, or in-place prior, or worker pool, or resume, or discard '
        'toggle); distinct by case hash.')
ASSUMPTIONS = [
    'blob dtypes are ones HDF5 can store (numpy U strings are rejected by '
    'h5py itself)',
    'the stored blob is the returned blob cast to the requested/inferred '
    'dtype by numpy',
]
REQUIRED_CLASSES = ['batch=1', 'blobs', 'inplace_prior', 'dict_prior',
                    'Prior_object', 'pool', 'vectorized', 'scalar', 'resumed',
                    'toggled', 'transfer', 'array_blob', 'struct_blob']


def plan(tier):
    if tier == 'quick':
        return dict(shards=16, budget_s=70, examples=16)
    return dict(shards=16, budget_s=1000, examples=240)


def strategy():
    return hs.cases(
        families=['gauss', 'twomax', 'banana', 'rfunnel', 'halfspace',
                  'stairs', 'wrap', 'slab', 'funnel'],
        blobs=['none', 'float', 'int', 'bool', 'S8', 'two', 'struct',
               'two_single', 'array', 'float', 'two', 'array'],
        priors=['identity', 'identity', 'inplace', 'inplace', 'dictfn',
                'Prior', 'PriorArray'],
        networks=(0, 0, 0, 0, 1),
        pools=('none', 'none', 'none', 'none', 'int2', 'mp2'),
        hist_kw=dict(resume=True, toggles=True, max_ops=5), d_max=4)


def run_case(case):
    res = Result()
    spec, cfg = case['spec'], case['cfg']
    st = dict(transfer=False, checks=0)

    def on_op(lab, op, out):
        s = lab.sampler
        if s.n_like == 0:
            return
        if len(s.bounds) > 1 and np.any(np.asarray(s.shell_t) == -1):
            st['transfer'] = True
        if op[0] in ('accessor',):
            return
        st['checks'] += 1
        so.check_rows(lab, res, 'after-' + op[0])
        if op[0] == 'finish':
            if int(np.sum(s.shell_n)) > 0:
                # (resampling an empty view is undefined: nothing to check)
                so.check_rows(lab, res, 'equal-weight', equal_weight=True)
            if spec['prior'] in ('Prior', 'PriorArray'):
                so.check_rows(lab, res, 'as-dict', return_as_dict=True)
                so.check_rows(lab, res, 'as-array', return_as_dict=False)

    lab = hs.execute(case, res, on_op=on_op, use_file=True)
    s = lab.sampler
    pool = cfg['pool'] != 'none'
    blobs = spec['blob'] != 'none'
    res.cls('batch=1', cfg['n_batch'] == 1)
    res.cls('blobs', blobs)
    res.cls('inplace_prior', spec['prior'] == 'inplace')
    res.cls('dict_prior', spec['prior'] == 'dictfn')
    res.cls('Prior_object', spec['prior'] in ('Prior', 'PriorArray'))
    res.cls('pool', pool)
    res.cls('vectorized', cfg['vectorized'])
    res.cls('scalar', not cfg['vectorized'])
    res.cls('resumed', lab.stats['resumes'] > 0)
    res.cls('toggled', lab.stats['toggles'] > 0)
    res.cls('transfer', st['transfer'])
    res.cls('array_blob', spec['blob'] == 'array')
    res.cls('struct_blob', spec['blob'] in ('two', 'struct'))
    res.cls('explored', bool(s.explored))
    res.nontrivial = bool(blobs and (
        cfg['n_batch'] == 1 or st['transfer'] or spec['prior'] == 'inplace'
        or pool or lab.stats['resumes'] > 0 or lab.stats['toggles'] > 0))
    return res


def replay(case):
    return run_case(case)


def shard(ctx, tier, i, n):
    hyp_generate(ctx, strategy(), run_case, plan(tier)['examples'],
                 case_timeout=150)
