"""Independent recomputations shared by several properties."""

import hashlib

import numpy as np
from scipy.special import logsumexp


# ------------------------------------------------------------------ HDF5

def _val(v):
    a = np.asarray(v)
    if a.dtype.kind in ('O', 'U', 'S'):
        return ('str', a.shape, repr(a.tolist()))
    return (a.dtype.str, a.shape, a.tobytes())


def h5_logical(group):
    """Logical content of an HDF5 group: every group, dataset (shape, dtype,
    bytes) and attribute, recursively.  NaNs compare equal (bytes)."""
    import h5py
    out = {}
    for k, v in group.attrs.items():
        out['@' + k] = _val(v)
    for k in group:
        item = group[k]
        if isinstance(item, h5py.Dataset):
            out[k] = _val(item[()])
        else:
            out[k + '/'] = h5_logical(item)
    return out


def h5_diff(a, b, prefix=''):
    """List of paths at which two logical contents differ."""
    diffs = []
    for k in sorted(set(a) | set(b)):
        if k not in a:
            diffs.append(prefix + k + ' (only in second)')
        elif k not in b:
            diffs.append(prefix + k + ' (only in first)')
        elif isinstance(a[k], dict) and isinstance(b[k], dict):
            diffs.extend(h5_diff(a[k], b[k], prefix + k))
        elif a[k] != b[k]:
            diffs.append(prefix + k)
    return diffs


def h5_digest(logical):
    return hashlib.sha256(repr(_freeze(logical)).encode()).hexdigest()


def _freeze(x):
    if isinstance(x, dict):
        return tuple((k, _freeze(x[k])) for k in sorted(x))
    return x


# -------------------------------------------------------- sampler estimators

def estimators(points, log_l, log_v_bound, n_sample, start=None,
               n_sample_exp=None):
    """Importance-nested-sampling estimators from raw stored arrays.

    points/log_l: per-shell lists; log_v_bound: bound volumes; n_sample:
    proposal counts; start/n_sample_exp: for the discard view the first row
    in view and the proposals to subtract.  Written from the statement of
    C02, not from ``update_shell_info``."""
    n_shell = len(points)
    if start is None:
        start = [0] * n_shell
    if n_sample_exp is None:
        n_sample_exp = [0] * n_shell
    terms = []
    shell_log_v = np.full(n_shell, -np.inf)
    shell_n = np.zeros(n_shell, dtype=int)
    shell_log_z = np.full(n_shell, -np.inf)
    shell_kish = np.zeros(n_shell)
    bad = []
    for i in range(n_shell):
        ll = np.asarray(log_l[i], dtype=float)[start[i]:]
        n_i = len(ll)
        N_i = int(n_sample[i]) - int(n_sample_exp[i])
        shell_n[i] = n_i
        if n_i == 0:
            continue
        if n_i > N_i:
            bad.append((i, n_i, N_i))
            continue
        lv = float(log_v_bound[i]) + np.log(n_i / N_i)
        shell_log_v[i] = lv
        t = ll + lv - np.log(n_i)
        terms.append(t)
        shell_log_z[i] = logsumexp(t)
        if np.all(ll == -np.inf):
            shell_kish[i] = n_i
        else:
            shell_kish[i] = np.exp(2 * logsumexp(ll) - logsumexp(2 * ll))
    if terms:
        allt = np.concatenate(terms)
        log_z = float(logsumexp(allt))
    else:
        allt = np.zeros(0)
        log_z = None
    out = dict(shell_n=shell_n, shell_log_v=shell_log_v, log_z=log_z,
               terms=allt, bad=bad, shell_log_z=shell_log_z,
               shell_kish=shell_kish)
    if len(allt) and np.isfinite(log_z):
        lw = allt - log_z
        out['log_w'] = lw
        out['n_eff'] = float(np.exp(2 * logsumexp(lw) - logsumexp(2 * lw)))
        # eta from its definition
        sel = shell_n > 0
        W = shell_log_z[sel]
        eff = shell_kish[sel] / shell_n[sel]
        with np.errstate(divide='ignore'):
            out['eta'] = float(np.exp(2 * logsumexp(W) - 2 * logsumexp(
                W - 0.5 * np.log(eff))))
    else:
        out['log_w'] = None
        out['n_eff'] = None
        out['eta'] = None
    return out
