"""Shared machinery: tiers, seeds, shards, buckets, shrinking, replay, evidence.

Every property module ``nv.props.cNN`` exposes

    ID, LEVEL, RULE, ASSUMPTIONS, TECHNIQUE
    plan(tier)              -> dict(shards=int, budget_s=float, ...)
    shard(ctx, tier, i, n)  -> None   (generates cases, reports them to ctx)
    replay(case)            -> Result (deterministic re-execution of one case)

A *case* is a plain JSON value.  ``replay(case)`` never uses Hypothesis or any
random source other than seeds stored inside the case, so a replay file is a
complete reproduction.
"""

import hashlib
import importlib
import json
import os
import subprocess
import sys
import time
import traceback

VERIF = os.path.dirname(os.path.dirname(os.path.abspath(__file__)))
REPO = os.environ.get('NV_REPO', '/repo')
PYTHON = '/venv/bin/python'
# evidence/ and replays/ go under OUT (default: /verif itself); sensitivity
# runs against scratch trees redirect it so they never touch real evidence.
OUT = os.environ.get('NV_OUT', VERIF)
PROPS = ['C%02d' % i for i in range(1, 17)]


def setup_path():
    """Make ``import nautilus`` resolve to the working tree under test."""
    if sys.path[0] != REPO:
        sys.path.insert(0, REPO)
    if VERIF not in sys.path:
        sys.path.insert(1, VERIF)


def base_env():
    env = dict(os.environ)
    for k in ['OMP_NUM_THREADS', 'OPENBLAS_NUM_THREADS', 'MKL_NUM_THREADS',
              'NUMEXPR_NUM_THREADS']:
        env[k] = '1'
    env['PYTHONHASHSEED'] = '0'
    env['PYTHONDONTWRITEBYTECODE'] = '1'
    env['PYTHONWARNINGS'] = 'ignore'
    env['NV_REPO'] = REPO
    env['PYTHONPATH'] = REPO + os.pathsep + VERIF
    return env


def verif_seed():
    try:
        return int(os.environ.get('VERIF_SEED', '1'))
    except ValueError:
        return 1


def derive_seed(*parts):
    h = hashlib.sha256('/'.join(str(p) for p in parts).encode()).digest()
    return int.from_bytes(h[:8], 'big') % (2 ** 63)


def canon(obj):
    return json.dumps(obj, sort_keys=True, separators=(',', ':'),
                      default=_json_default)


def _json_default(o):
    import numpy as np
    if isinstance(o, (np.integer,)):
        return int(o)
    if isinstance(o, (np.floating,)):
        return float(o)
    if isinstance(o, (np.bool_,)):
        return bool(o)
    if isinstance(o, np.ndarray):
        return o.tolist()
    if isinstance(o, bytes):
        return o.hex()
    return repr(o)


def case_hash(case):
    return hashlib.sha256(canon(case).encode()).hexdigest()[:16]


def V(clause, component, detail):
    """A violation record.  bucket = clause/component (root-cause key)."""
    return dict(clause=str(clause), component=str(component),
                detail=str(detail)[:600])


def bucket_of(v):
    return v['clause'] + '/' + v['component']


class Result:
    """Outcome of executing one case."""

    _latest = None

    def __init__(self):
        Result._latest = self     # lets the watchdog recover what a case
        #                           had already observed when it timed out
        self.violations = []
        self.nontrivial = False
        self.classes = []
        self.discard = None       # reason string if the case was discarded
        self.counts = {}          # oracle-clause evaluation counters
        self.extra_nontrivial = []  # additional distinct non-trivial keys

    def viol(self, clause, component, detail):
        self.violations.append(V(clause, component, detail))

    def cls(self, name, cond=True):
        if cond and name not in self.classes:
            self.classes.append(name)

    def count(self, name, n=1):
        self.counts[name] = self.counts.get(name, 0) + int(n)


class Ctx:
    """Per-shard collector."""

    def __init__(self, prop, tier, shard, n_shards, budget_s, seed):
        self.prop, self.tier = prop, tier
        self.shard, self.n_shards = shard, n_shards
        self.seed = seed
        self.t0 = time.time()
        self.budget_s = budget_s
        self.evaluations = 0
        self.nontrivial = set()
        self.classes = {}
        self.counts = {}
        self.samples = []
        self.buckets = {}     # bucket -> dict(case, detail, size, n)
        self.discards = {}
        self.notes = []
        self.extra = {}
        self.exhaustive = None

    def time_left(self):
        return self.budget_s - (time.time() - self.t0)

    def out_of_time(self):
        return self.time_left() <= 0

    def record(self, case, res, sample=True):
        self.evaluations += 1
        if res.discard is not None and not res.violations:
            self.discards[res.discard] = self.discards.get(res.discard, 0) + 1
            self.classes['discarded'] = self.classes.get('discarded', 0) + 1
            return
        if res.nontrivial and not res.extra_nontrivial:
            self.nontrivial.add(case_hash(case))
        for k in res.extra_nontrivial:
            self.nontrivial.add(hashlib.sha256(
                canon(k).encode()).hexdigest()[:16])
        for c in res.classes:
            self.classes[c] = self.classes.get(c, 0) + 1
        for k, n in res.counts.items():
            self.counts[k] = self.counts.get(k, 0) + n
        if sample and len(self.samples) < 3 and (
                res.nontrivial or self.evaluations > 20):
            self.samples.append(case)
        size = len(canon(case))
        for v in res.violations:
            b = bucket_of(v)
            cur = self.buckets.get(b)
            if cur is None:
                self.buckets[b] = dict(case=case, detail=v['detail'],
                                       size=size, n=1, clause=v['clause'],
                                       component=v['component'])
            else:
                cur['n'] += 1
                if size < cur['size']:
                    cur.update(case=case, detail=v['detail'], size=size)

    def dump(self):
        return dict(
            prop=self.prop, tier=self.tier, shard=self.shard,
            evaluations=self.evaluations, nontrivial=sorted(self.nontrivial),
            classes=self.classes, counts=self.counts, samples=self.samples,
            buckets=self.buckets, discards=self.discards, notes=self.notes,
            extra=self.extra, exhaustive=self.exhaustive,
            wall_s=time.time() - self.t0)


# --------------------------------------------------------------------------
# Hypothesis drivers
# --------------------------------------------------------------------------

def hyp_generate(ctx, strategy, run_case, max_examples, tag='main',
                 shrink_budget_s=None, max_shrink_buckets=3,
                 case_timeout=None):
    """Generate cases, execute, collect; then shrink new buckets."""
    import hypothesis
    from hypothesis import given, settings, Phase, HealthCheck
    known = load_known(ctx.prop)
    seed_int = derive_seed(ctx.seed, ctx.prop, ctx.shard, tag)
    new_buckets = []

    def make(phases, body, n):
        @hypothesis.seed(seed_int)
        @settings(max_examples=n, database=None, deadline=None,
                  derandomize=False, phases=phases,
                  suppress_health_check=list(HealthCheck),
                  report_multiple_bugs=False)
        @given(strategy)
        def t(case):
            body(case)
        return t

    n_done = [0]
    inner_run_case = run_case
    quota = max_examples
    n_sh = max(1, ctx.n_shards)
    # Every Hypothesis run starts with the same simplest examples whatever its
    # seed, so without care all shards would execute identical first cases.
    # A generated case is executed only by the shard that owns its hash; each
    # shard therefore generates n_shards times its quota (generation is cheap
    # compared with execution) and stops executing once the quota is reached.
    max_examples = quota * n_sh

    def owned(case):
        return int(case_hash(case), 16) % n_sh == ctx.shard % n_sh

    def run_case(case):
        return with_timeout(inner_run_case, case, ctx, case_timeout)

    def body(case):
        if ctx.out_of_time() or n_done[0] >= quota or not owned(case):
            return
        n_done[0] += 1
        res = run_case(case)
        before = set(ctx.buckets)
        ctx.record(case, res)
        for b in ctx.buckets:
            if b not in before:
                new_buckets.append(b)

    make([Phase.generate], body, max_examples)()
    if n_done[0] < quota and ctx.out_of_time():
        ctx.notes.append('budget exhausted after %d of %d cases (%s)' % (
            n_done[0], quota, tag))

    # Shrink buckets that are not known findings.
    if shrink_budget_s is None:
        shrink_budget_s = 45 if ctx.tier == 'quick' else 240
    todo = [b for b in new_buckets if not match_known(known, ctx.prop, b)]
    for b in todo[:max_shrink_buckets]:
        t_end = time.time() + shrink_budget_s
        best = [None]

        def sbody(case, b=b, t_end=t_end, best=best):
            if time.time() > t_end or not owned(case):
                return
            res = run_case(case)
            for v in res.violations:
                if bucket_of(v) == b:
                    best[0] = (case, v['detail'])
                    raise AssertionError(b)

        try:
            make([Phase.generate, Phase.shrink], sbody, max_examples)()
        except BaseException:  # noqa: hypothesis reports / flaky / ours
            pass
        if best[0] is not None:
            case, detail = best[0]
            size = len(canon(case))
            if size <= ctx.buckets[b]['size']:
                ctx.buckets[b].update(case=case, detail=detail, size=size,
                                      shrunk=True)


class CaseTimeout(BaseException):
    pass


def with_timeout(fn, case, ctx, seconds=None):
    """Run one case under a watchdog.  A case that does not finish is not a
    violation of any listed property (none is a liveness property): it is
    discarded as 'timeout' and written into the notes."""
    import signal
    seconds = int(seconds or os.environ.get('NV_CASE_TIMEOUT', '60'))

    def handler(signum, frame):
        raise CaseTimeout()

    old = signal.signal(signal.SIGALRM, handler)
    Result._latest = None
    signal.alarm(seconds)
    try:
        return fn(case)
    except CaseTimeout:
        seen = Result._latest
        if seen is not None and seen.violations:
            # violations observed on valid states before the case hung
            seen.discard = None
            return seen
        r = Result()
        r.discard = 'timeout'
        if len(ctx.notes) < 5:
            ctx.notes.append('case timed out after %ds: %s' % (
                seconds, canon(case)[:1500]))
        return r
    finally:
        signal.alarm(0)
        signal.signal(signal.SIGALRM, old)


# --------------------------------------------------------------------------
# Known findings
# --------------------------------------------------------------------------

def load_known(prop=None):
    """Return list of (kind, property, bucket-prefix, text)."""
    out = []
    path = os.path.join(VERIF, 'KNOWN_FINDINGS.txt')
    if not os.path.exists(path):
        return out
    for line in open(path):
        line = line.strip()
        if not line or line.startswith('#'):
            continue
        kind, _, rest = line.partition(':')
        kind = kind.strip()
        fields = rest.strip().split()
        p = None
        bucket = None
        for f in fields:
            if f.startswith('property='):
                p = f[len('property='):]
            if f.startswith('bucket='):
                bucket = f[len('bucket='):]
        if prop is not None and p != prop:
            continue
        out.append((kind, p, bucket, rest.strip()))
    return out


def match_known(known, prop, bucket):
    """A ``known:`` line suppresses exactly the bucket it names."""
    for kind, p, b, text in known:
        if kind == 'known' and p == prop and b is not None and bucket == b:
            return text
    return None


# --------------------------------------------------------------------------
# Parent: run a property
# --------------------------------------------------------------------------

def load_prop(prop):
    setup_path()
    return importlib.import_module('nv.props.' + prop.lower())


def run_shard_main(argv):
    """Entry point of a shard subprocess."""
    prop, tier, seed, i, n, budget, out = argv
    setup_path()
    mod = load_prop(prop)
    ctx = Ctx(prop, tier, int(i), int(n), float(budget), int(seed))
    try:
        mod.shard(ctx, tier, int(i), int(n))
        payload = ctx.dump()
        payload['ok'] = True
    except BaseException:
        payload = ctx.dump()
        payload['ok'] = False
        payload['error'] = traceback.format_exc()
    tmp = out + '.tmp'
    with open(tmp, 'w') as f:
        f.write(canon(payload))
    os.replace(tmp, out)


def scratch_dir(tag):
    base = os.environ.get('NV_SCRATCH') or os.path.join(
        VERIF, '.scratch')
    d = os.path.join(base, '%s-%d' % (tag, os.getpid()))
    os.makedirs(d, exist_ok=True)
    return d


def run_property(prop, tier):
    import shutil
    t0 = time.time()
    if os.environ.get('NV_SCRATCH'):
        os.makedirs(os.environ['NV_SCRATCH'], exist_ok=True)
    mod = load_prop(prop)
    seed = verif_seed()
    plan = mod.plan(tier)
    jobs = int(os.environ.get('NV_JOBS', '16'))
    n_shards = int(plan.get('shards', jobs))
    budget = float(os.environ.get('NV_BUDGET_S', plan.get('budget_s', 60)))
    hard = budget * float(plan.get('hard_factor', 3.0)) + 120

    violations = []   # (bucket, case, detail, origin)
    known = load_known(prop)
    notes = []

    # 1. regression tier
    reg_dir = os.path.join(VERIF, 'regressions', prop)
    n_reg = 0
    if os.path.isdir(reg_dir):
        for name in sorted(os.listdir(reg_dir)):
            if not name.endswith('.json'):
                continue
            with open(os.path.join(reg_dir, name)) as f:
                rec = json.load(f)
            n_reg += 1
            try:
                res = mod.replay(rec['case'])
            except BaseException:
                print('HARNESS-ERROR: regression %s raised\n%s' % (
                    name, traceback.format_exc()))
                return 2
            for v in res.violations:
                violations.append((bucket_of(v), rec['case'], v['detail'],
                                   'regression:' + name))

    # 2. shards
    work = scratch_dir('run-%s-%s' % (prop, tier))
    procs = []
    env = base_env()
    pending = list(range(n_shards))
    running = {}
    results = {}
    t_start = time.time()
    harness_error = None
    while pending or running:
        while pending and len(running) < jobs:
            i = pending.pop(0)
            out = os.path.join(work, 'shard-%d.json' % i)
            log = open(os.path.join(work, 'shard-%d.log' % i), 'w')
            p = subprocess.Popen(
                [PYTHON, '-m', 'nv.shard', prop, tier, str(seed), str(i),
                 str(n_shards), str(budget), out],
                cwd=VERIF, env=env, stdout=log, stderr=subprocess.STDOUT,
                start_new_session=True)
            running[i] = (p, out, log, time.time())
        time.sleep(0.05)
        for i in list(running):
            p, out, log, ts = running[i]
            rc = p.poll()
            if rc is None:
                if time.time() - ts > hard:
                    _kill_group(p)
                    notes.append('shard %d killed after hard limit %.0fs; '
                                 'its cases are not counted' % (i, hard))
                    log.close()
                    del running[i]
                continue
            log.close()
            del running[i]
            if os.path.exists(out):
                with open(out) as f:
                    results[i] = json.load(f)
                if not results[i].get('ok'):
                    harness_error = 'shard %d: %s' % (
                        i, results[i].get('error'))
            else:
                tail = open(os.path.join(work, 'shard-%d.log' % i)
                            ).read()[-2000:]
                harness_error = 'shard %d exited %s without result\n%s' % (
                    i, rc, tail)
    procs = None

    # 3. merge
    evaluations = 0
    nontrivial = set()
    classes, counts, discards, extra = {}, {}, {}, {}
    samples = []
    buckets = {}
    exhaustive = None
    for i in sorted(results):
        r = results[i]
        evaluations += r['evaluations']
        nontrivial.update(r['nontrivial'])
        for k, n in r['classes'].items():
            classes[k] = classes.get(k, 0) + n
        for k, n in r['counts'].items():
            counts[k] = counts.get(k, 0) + n
        for k, n in r['discards'].items():
            discards[k] = discards.get(k, 0) + n
        for k, n in r.get('extra', {}).items():
            if isinstance(n, (int, float)) and not k.startswith('const_'):
                extra[k] = extra.get(k, 0) + n
            else:
                extra.setdefault(k, n)
        if len(samples) < 4:
            samples.extend(r['samples'][:1])
        notes.extend(r['notes'])
        if r.get('exhaustive') is not None:
            exhaustive = (r['exhaustive'] if exhaustive is None
                          else (exhaustive and r['exhaustive']))
        for b, rec in r['buckets'].items():
            cur = buckets.get(b)
            if cur is None or rec['size'] < cur['size']:
                n_prev = cur['n'] if cur else 0
                buckets[b] = dict(rec)
                buckets[b]['n'] = rec['n'] + n_prev
            else:
                cur['n'] += rec['n']
    if len(samples) < 1:
        for i in sorted(results):
            samples.extend(results[i]['samples'][:2])
    for b, rec in sorted(buckets.items()):
        violations.append((b, rec['case'], rec['detail'], 'generated'))

    # 4. minimise (property-specific structural pass), decide, report
    rc = 0
    seen = set()
    n_viol = 0
    t_min0 = time.time()
    known_hits = []
    for b, case, detail, origin in violations:
        if b in seen:
            continue
        seen.add(b)
        text = match_known(known, prop, b)
        if text is not None:
            print('KNOWN-FINDING: property=%s %s' % (prop, text))
            known_hits.append(b)
            continue
        if hasattr(mod, 'minimize') and origin == 'generated' and (
                time.time() - t_min0 < (90 if tier == 'quick' else 600)):
            try:
                case2, detail2 = mod.minimize(case, b)
                if case2 is not None:
                    case, detail = case2, detail2
            except BaseException:
                notes.append('minimize failed for ' + b)
        os.makedirs(os.path.join(OUT, 'replays'), exist_ok=True)
        safe = ''.join(ch if ch.isalnum() else '_' for ch in b)[:60]
        path = os.path.join(OUT, 'replays', '%s-%s-%s.json' % (
            prop, safe, case_hash(case)))
        with open(path, 'w') as f:
            json.dump(dict(property=prop, bucket=b, detail=detail,
                           origin=origin, seed=seed, tier=tier, case=case),
                      f, indent=1, default=_json_default)
        print('  bucket %s (%s): %s' % (b, origin, detail))
        print('VIOLATION property=%s replay=%s' % (prop, path))
        n_viol += 1
        rc = 1

    n_disc = sum(discards.values())
    if evaluations and n_disc > 0.10 * evaluations and rc == 0:
        harness_error = ('%d of %d cases discarded (>10%%): %s' % (
            n_disc, evaluations, discards))

    # 5. evidence
    gaps = []
    for c in getattr(mod, 'REQUIRED_CLASSES', []):
        if classes.get(c, 0) == 0:
            gaps.append(c)
            print('COVERAGE-GAP: property=%s class=%s empty' % (prop, c))
    cov = dict(
        evaluations=int(evaluations),
        distinct_nontrivial=len(nontrivial) + int(
            extra.get('distinct_nontrivial_enumerated', 0)),
        rule=mod.RULE, samples=samples[:4], classes=classes,
        clause_evaluations=counts, discarded=discards,
        regression_cases_replayed=n_reg, shards=n_shards,
        shards_completed=len(results), coverage_gaps=gaps,
        known_findings_hit=known_hits, notes=notes[:20])
    cov.update(extra)
    if getattr(mod, 'EVALUATIONS_FROM_COUNT', None):
        # e.g. C06: one evaluation = one crash point, not one traced run
        cov['cases_generated'] = int(evaluations)
        cov['evaluations'] = int(counts.get(mod.EVALUATIONS_FROM_COUNT, 0))
    for k in getattr(mod, 'COVERAGE_FROM_COUNTS', []):
        cov[k] = int(counts.get(k, 0))
    if exhaustive is not None:
        cov['exhaustive'] = bool(exhaustive)
    if hasattr(mod, 'EXHAUSTIVE_NOTE'):
        cov['exhaustive_scope'] = mod.EXHAUSTIVE_NOTE
    ev = dict(property_id=prop, tier=tier, seed=seed, level=mod.LEVEL,
              coverage=cov, assumptions=list(mod.ASSUMPTIONS),
              wall_s=round(time.time() - t0, 2), violations=n_viol,
              technique=mod.TECHNIQUE, repo=REPO)
    os.makedirs(os.path.join(OUT, 'evidence'), exist_ok=True)
    evp = os.path.join(OUT, 'evidence', prop + '.json')
    with open(evp + '.tmp', 'w') as f:
        json.dump(ev, f, indent=1, default=_json_default)
    os.replace(evp + '.tmp', evp)

    shutil.rmtree(work, ignore_errors=True)
    try:
        os.rmdir(os.path.dirname(work))
    except OSError:
        pass

    print('%s %s: %d cases, %d distinct non-trivial, %d violation bucket(s),'
          ' %d discarded, %.1fs' % (prop, tier, evaluations,
                                    cov['distinct_nontrivial'],
                                    n_viol, n_disc, time.time() - t0))
    if rc == 0 and harness_error:
        print('HARNESS-ERROR: ' + harness_error)
        return 2
    if rc == 0 and (evaluations < 1 or cov['distinct_nontrivial'] < 2):
        print('HARNESS-ERROR: run produced no usable coverage')
        return 2
    return rc


def _kill_group(p):
    import signal
    try:
        os.killpg(os.getpgid(p.pid), signal.SIGKILL)
    except OSError:
        pass
    try:
        p.wait(timeout=5)
    except Exception:
        pass


def run_replay(path):
    if os.environ.get('NV_SCRATCH'):
        os.makedirs(os.environ['NV_SCRATCH'], exist_ok=True)
    with open(path) as f:
        rec = json.load(f)
    prop = rec['property']
    mod = load_prop(prop)
    res = mod.replay(rec['case'])
    if res.discard is not None:
        print('case discarded: ' + res.discard)
    if not res.violations:
        print('replay %s: property %s held' % (path, prop))
        return 0
    for v in res.violations:
        print('  %s: %s' % (bucket_of(v), v['detail']))
    print('VIOLATION property=%s replay=%s' % (prop, os.path.abspath(path)))
    return 1
