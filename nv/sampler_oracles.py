"""Oracles over an observable sampler state (C01, C02, C03, C10, C12)."""

import numpy as np
from scipy.special import logsumexp

from nv.oracles import estimators

RTOL = 1e-9


def close(a, b, tol=RTOL):
    if a is None or b is None:
        return a is None and b is None
    a, b = float(a), float(b)
    if np.isnan(a) or np.isnan(b):
        return np.isnan(a) and np.isnan(b)
    if np.isinf(a) or np.isinf(b):
        return a == b
    return abs(a - b) <= tol * max(1.0, abs(a), abs(b))


def rows_bytes(a):
    a = np.ascontiguousarray(a, dtype=float)
    return [r.tobytes() for r in a]


# ---------------------------------------------------------------- C01

def check_partition(s, res, where):
    """Every stored sample lies in the cube, in its own bound, outside every
    later bound; shells are disjoint; pending transfer candidates sit in the
    newest bound and in their origin bound."""
    nb = len(s.bounds)
    if len(s.points) != nb:
        res.viol('shells-vs-bounds', where, '%d point lists, %d bounds' % (
            len(s.points), nb))
        return
    seen = {}
    n_rows = 0
    for i in range(nb):
        p = s.points[i]
        n_rows += len(p)
        if len(p) == 0:
            continue
        if not np.all((p >= 0) & (p < 1)):
            bad = p[~np.all((p >= 0) & (p < 1), axis=1)][0]
            res.viol('outside-cube', where, 'shell %d row %r' % (
                i, bad.tolist()))
        try:
            own = np.asarray(s.bounds[i].contains(p))
        except Exception as e:
            res.viol('contains-raises', where, 'bound %d: %r' % (i, e))
            return
        if not np.all(own):
            res.viol('outside-own-bound', where, 'shell %d of %d: %d of %d '
                     'rows not in their bound' % (i, nb, int(np.sum(~own)),
                                                  len(p)))
        for k in range(i + 1, nb):
            later = np.asarray(s.bounds[k].contains(p))
            if np.any(later):
                res.viol('inside-later-bound', where, 'shell %d: %d rows '
                         'inside later bound %d (of %d)' % (
                             i, int(np.sum(later)), k, nb))
                break
        try:
            assoc = np.asarray(s.shell_association(p))
            if not np.all(assoc == i):
                res.viol('association', where, 'shell %d: shell_association '
                         'gives %r' % (i, np.unique(assoc).tolist()))
        except Exception as e:
            res.viol('association-raises', where, repr(e))
        for rb in rows_bytes(p):
            if rb in seen:
                res.viol('counted-twice', where, 'row in shells %d and %d' % (
                    seen[rb], i))
                break
            seen[rb] = i
    res.count('partition-rows', n_rows)
    # pending transfer candidates (only meaningful during exploration)
    if not s.explored and nb > 1 and len(np.atleast_1d(s.shell_t)) > 0:
        st_ = np.asarray(s.shell_t)
        pend = st_ >= 0
        if np.any(pend):
            pp = np.asarray(s.points_t)[pend]
            res.count('pending-rows', len(pp))
            if not np.all(s.bounds[-1].contains(pp)):
                res.viol('pending-outside-newest', where, '')
            for sh in np.unique(st_[pend]):
                q = pp[st_[pend] == sh]
                if not np.all(s.bounds[int(sh)].contains(q)):
                    res.viol('pending-outside-origin', where,
                             'origin shell %d' % sh)
            for rb in rows_bytes(pp):
                if rb in seen:
                    res.viol('counted-twice', where + ':pending',
                             'pending candidate also stored in shell %d' %
                             seen[rb])
                    break


# ---------------------------------------------------------------- C02

class SplitRecord:
    """The harness's own record of where the exploration phase ended."""

    def __init__(self):
        self.start = None
        self.n_sample_exp = None

    def observe(self, s):
        if s.explored and self.start is None:
            self.start = [len(p) for p in s.points]
            self.n_sample_exp = [int(n) for n in s.shell_n_sample]


def view_of(s, split):
    """(start, n_sample_exp) of the current view, from the harness record."""
    if s.explored and bool(s.discard_exploration):
        if split.start is None:
            return None, None
        return split.start, split.n_sample_exp
    return None, None


def check_estimators(s, res, where, split, want_posterior=True):
    nb = len(s.bounds)
    # alignment of the bookkeeping
    lens = [len(s.points), len(s.log_l)] + (
        [len(s.blobs)] if s.blobs is not None else [])
    arrs = [len(getattr(s, k)) for k in (
        'shell_n', 'shell_n_sample', 'shell_n_eff', 'shell_log_l_min',
        'shell_log_l', 'shell_log_v')]
    if len(set(lens + arrs + [nb])) != 1:
        res.viol('bookkeeping-length', where, 'lists %r arrays %r bounds %d'
                 % (lens, arrs, nb))
        return None
    for i in range(nb):
        m = [len(s.points[i]), len(s.log_l[i])] + (
            [np.shape(s.blobs[i])[0] if np.ndim(s.blobs[i]) >= 1 else -1]
            if s.blobs is not None else [])
        if len(set(m)) != 1:
            res.viol('bookkeeping-rows', where, 'shell %d: %r' % (i, m))
            return None
    start, nexp = view_of(s, split)
    if s.explored and bool(s.discard_exploration) and start is None:
        return None       # harness never saw the end of exploration
    if start is not None and len(start) != nb:
        res.viol('bounds-changed-after-exploration', where,
                 '%d shells at the end of exploration, %d now' % (
                     len(start), nb))
        return None
    try:
        lvb = [float(b.log_v) for b in s.bounds]
    except Exception as e:
        res.viol('log_v-raises', where, repr(e))
        return None
    est = estimators(s.points, s.log_l, lvb, s.shell_n_sample, start, nexp)
    res.count('estimator-evaluations')
    if est['bad']:
        res.viol('count-exceeds-proposals', where, 'shell %d: n=%d > N=%d' %
                 est['bad'][0])
        return est
    if not np.array_equal(np.asarray(s.shell_n), est['shell_n']):
        res.viol('shell-count', where, 'shell_n %r, rows in view %r' % (
            np.asarray(s.shell_n).tolist(), est['shell_n'].tolist()))
        return est
    for i in range(nb):
        if est['shell_n'][i] > 0 and not close(s.shell_log_v[i],
                                               est['shell_log_v'][i]):
            res.viol('shell-volume', where, 'shell %d: %.12g, bound volume x '
                     'fraction gives %.12g' % (i, s.shell_log_v[i],
                                               est['shell_log_v'][i]))
            return est
    try:
        lz = s.log_z
        ne = s.n_eff
    except Exception as e:
        res.viol('accessor-raises', where, repr(e))
        return est
    if est['log_z'] is None:
        if lz is not None:
            res.viol('log_z', where, 'no rows in view but log_z=%r' % lz)
        return est
    if not close(lz, est['log_z']):
        res.viol('log_z', where, 'reported %.12g, estimator %.12g' % (
            lz, est['log_z']))
    if est['n_eff'] is not None:
        if not close(ne, est['n_eff'], 1e-7):
            res.viol('n_eff', where, 'reported %.12g, Kish %.12g' % (
                ne, est['n_eff']))
        try:
            eta = s.eta
            if not close(eta, est['eta'], 1e-7):
                res.viol('eta', where, 'reported %.12g, definition %.12g' % (
                    eta, est['eta']))
        except Exception as e:
            res.viol('accessor-raises', where + ':eta', repr(e))
    if want_posterior:
        try:
            out = s.posterior()
        except Exception as e:
            res.viol('posterior-raises', where, repr(e))
            return est
        log_w, log_l = np.asarray(out[1]), np.asarray(out[2])
        st = start or [0] * nb
        want_l = np.concatenate([np.asarray(l)[a:] for l, a in
                                 zip(s.log_l, st)])
        if len(log_w) != len(want_l) or len(log_l) != len(want_l):
            res.viol('posterior-length', where, '%d rows, %d in view' % (
                len(log_w), len(want_l)))
            return est
        if not np.array_equal(log_l, want_l):
            res.viol('posterior-order', where, 'log_l is not the stored rows '
                     'in shell order')
        if est['log_w'] is not None:
            with np.errstate(invalid='ignore'):
                dw = np.abs(log_w - est['log_w']) / np.maximum(
                    1.0, np.abs(est['log_w']))
            fin = np.isfinite(est['log_w'])
            if np.any(np.isfinite(log_w) != fin) or (
                    np.any(fin) and np.max(dw[fin]) > 1e-9):
                res.viol('posterior-weights', where, 'max |dlog w| = %r' % (
                    float(np.max(dw[fin])) if np.any(fin) else 'inf-pattern'))
            if np.any(fin) and abs(logsumexp(log_w)) > 1e-8:
                res.viol('posterior-normalisation', where, 'logsumexp = %g' %
                         logsumexp(log_w))
    return est


# ---------------------------------------------------------------- C03

def posterior_rows(lab, **kw):
    """Yield (argument-for-likelihood, log_l, blob) per posterior row."""
    s = lab.sampler
    out = s.posterior(return_blobs=s.blobs is not None, **kw)
    pts, log_w, log_l = out[0], out[1], out[2]
    blobs = out[3] if len(out) > 3 else None
    n = len(log_l)
    if isinstance(pts, dict):
        args = [{k: np.asarray(v)[i] for k, v in pts.items()}
                for i in range(n)]
    else:
        args = [pts[i] for i in range(n)]
    return args, np.asarray(log_w), np.asarray(log_l), blobs


def check_rows(lab, res, where, use_log=True, **kw):
    s, prob = lab.sampler, lab.problem
    try:
        args, log_w, log_l, blobs = posterior_rows(lab, **kw)
    except Exception as e:
        res.viol('posterior-raises', '%s:%s' % (where, type(e).__name__),
                 repr(e))
        return
    n = len(log_l)
    if len(args) != n or len(log_w) != n or (
            blobs is not None and len(blobs) != n):
        res.viol('row-misaligned', where, 'points %d log_w %d log_l %d blobs '
                 '%r' % (len(args), len(log_w), n,
                         None if blobs is None else len(blobs)))
        return
    if prob.blob != 'none':
        if blobs is None:
            res.viol('blobs-missing', where, '')
            return
        want_dt = np.dtype(prob.blobs_dtype()) if prob.blobs_dtype() \
            is not None else None
        if want_dt is not None and blobs.dtype != want_dt:
            res.viol('blob-dtype', where, '%r, requested %r' % (
                blobs.dtype, want_dt))
    logd = None
    if use_log and prob.log is not None and not prob.count_shared:
        logd = {}
        for key, ll, bl in prob.log:
            logd.setdefault(key, []).append((ll, bl))
    keys = set()
    res.count('rows-checked', n)
    for i in range(n):
        key = prob.key_of(args[i])
        if key in keys and kw.get('equal_weight_boost', 1.0) <= 1.0:
            res.viol('row-duplicated', where, 'a point appears twice in the '
                     'posterior')
            return
        keys.add(key)
        ll, bt = prob.pure(args[i])
        if logd is not None:
            if key not in logd:
                res.viol('row-not-evaluated', where, 'posterior row %d was '
                         'never passed to the likelihood' % i)
                return
            ll_pure = ll
            ll, bt = logd[key][0]
            # what was logged is also what the configured likelihood (incl.
            # likelihood_kwargs) gives for this point
            if prob.bitexact and np.float64(ll).tobytes() != np.float64(
                    ll_pure).tobytes():
                res.viol('row-log_l', where + ':configured-likelihood',
                         'row %d: the likelihood was called so that it '
                         'returned %r, as configured it returns %r' % (
                             i, ll, ll_pure))
                return
        same = (np.float64(ll).tobytes() == np.float64(log_l[i]).tobytes()
                if (prob.bitexact or logd is not None) else
                abs(ll - log_l[i]) <= 1e-9 * max(1, abs(ll)))
        if not same:
            res.viol('row-log_l', where, 'row %d: stored %r, likelihood '
                     'returned %r' % (i, float(log_l[i]), ll))
            return
        if prob.blob != 'none':
            want = prob.expected_blob(bt, blobs.dtype)
            got = blobs[i]
            ok = (np.asarray(got).tobytes() == np.asarray(want).tobytes()
                  and np.shape(got) == np.shape(want))
            if not ok:
                res.viol('row-blob', where, 'row %d: stored %r, likelihood '
                         'returned %r' % (i, got, want))
                return
