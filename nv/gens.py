"""Generators shared by the bound-level properties (C07, C08, C09, C13).

Structure (dimension, family, counts, options, operation lists) is drawn by
Hypothesis so it shrinks; bulk coordinates are expanded from a drawn integer
seed with numpy's PCG64, so a case is a small JSON value and replays exactly.
"""

import numpy as np
from hypothesis import strategies as st

ONE_M = float(np.nextafter(1.0, 0.0))


# ------------------------------------------------------------------ point sets

def _rotation(rng, d):
    if d == 1:
        return np.eye(1)
    q, r = np.linalg.qr(rng.normal(size=(d, d)))
    return q * np.sign(np.diag(r))


def _reflect(x):
    """Fold points into [0, 1) by reflection (keeps general position)."""
    x = np.mod(x, 2.0)
    x = np.where(x >= 1.0, 2.0 - x, x)
    return np.clip(x, 0.0, ONE_M)


def _wrap(x):
    x = np.mod(x, 1.0)
    return np.where(x >= 1.0, 0.0, x)


def _blob(rng, n, d, centre, scale, ratio):
    axes = scale * np.exp(-rng.random(d) * np.log(ratio))
    axes[0] = scale
    return centre + (rng.normal(size=(n, d)) * axes) @ _rotation(rng, d).T


def points_from_spec(spec):
    """Expand a point-set spec into an (n, d) float array."""
    d, n, fam = spec['d'], spec['n'], spec['family']
    rng = np.random.default_rng(spec['seed'])
    ratio = spec.get('ratio', 3.0)
    scale = spec.get('scale', 0.1)
    fold = spec.get('fold', 'reflect')
    if fam == 'gauss':
        x = _blob(rng, n, d, rng.uniform(0.3, 0.7, d), scale, ratio)
    elif fam == 'clusters':
        k = spec.get('k', 2)
        sep = spec.get('sep', 0.3)
        sizes = np.maximum(1, (np.array(spec.get(
            'weights', [1.0] * k)[:k]) / sum(spec.get(
                'weights', [1.0] * k)[:k]) * n).astype(int))
        base = rng.uniform(0.35, 0.65, d)
        parts = []
        for j in range(k):
            direction = rng.normal(size=d)
            direction /= np.linalg.norm(direction)
            sc = scale * (spec['small'] if (j == k - 1 and 'small' in spec)
                          else 1.0)
            parts.append(_blob(rng, sizes[j], d,
                               base + sep * j * direction / max(1, k - 1) *
                               (1 if j % 2 == 0 else -1),
                               sc, ratio))
        x = np.vstack(parts)
    elif fam == 'arc':
        t = rng.uniform(0, spec.get('arc', 2.5), n)
        r = 0.3 + scale * 0.3 * rng.normal(size=n)
        x = 0.5 + scale * 0.5 * rng.normal(size=(n, d))
        x[:, 0] = 0.5 + r * np.cos(t)
        if d > 1:
            x[:, 1] = 0.2 + r * np.sin(t)
    elif fam == 'banana':
        x = 0.5 + scale * rng.normal(size=(n, d))
        if d > 1:
            x[:, 1] += 20 * (x[:, 0] - 0.5) ** 2
    elif fam == 'face':
        # cloud pushed against faces/edges/corners
        nf = min(d, spec.get('nface', 1))
        centre = rng.uniform(0.3, 0.7, d)
        for j in range(nf):
            centre[j] = [0.0, 1.0][int(rng.integers(0, 2))] + (
                spec.get('offset', 1e-6) * (1 if centre[j] < 0.5 else -1))
        x = _blob(rng, n, d, centre, scale, ratio)
    elif fam == 'wrapped':
        centre = rng.uniform(0.3, 0.7, d)
        nw = min(d, spec.get('nface', 1))
        centre[:nw] = rng.uniform(-0.03, 0.03, nw)
        x = _blob(rng, n, d, centre, scale, ratio)
        fold = 'wrap'
    elif fam == 'uniform':
        x = rng.random((n, d))
    else:
        raise ValueError(fam)
    if fold == 'reflect':
        x = _reflect(x)
    elif fold == 'wrap':
        x = _wrap(x)
    # 'none': leave outside the cube (only for unit=False unions)
    if spec.get('exact_face') and fam in ('face', 'wrapped', 'uniform'):
        # isolated rows with a coordinate exactly on the closed/open face
        m = min(len(x), d + 1, 3)
        for j in range(m):
            x[j, j % d] = [0.0, ONE_M][j % 2]
    if spec.get('dups', 0) and len(x) > 3 * (d + 1):
        m = min(spec['dups'], 3)
        x[-m:] = x[:m]
    return np.ascontiguousarray(x, dtype=float)


@st.composite
def point_specs(draw, d_min=1, d_max=8, n_min=None, n_max=400,
                families=None, allow_outside=False, extreme_ratio=False):
    d = draw(st.integers(d_min, d_max))
    lo = max(d + 2, n_min or 0)
    n = draw(st.integers(lo, max(lo, n_max)))
    fams = families or ['gauss', 'clusters', 'arc', 'banana', 'face',
                        'wrapped', 'uniform']
    fam = draw(st.sampled_from(fams))
    spec = dict(d=d, n=n, family=fam, seed=draw(st.integers(0, 2 ** 32 - 1)),
                # (3e7: a rotated sheet at the edge of what the Cholesky based
                # transform still handles exactly; 1e8 raises LinAlgError)
                ratio=draw(st.sampled_from(
                    [1.0, 3.0, 30.0, 1000.0] + ([1000.0, 3e7]
                                                if extreme_ratio else []))),
                scale=draw(st.sampled_from([0.003, 0.02, 0.08, 0.2])))
    if fam == 'clusters':
        k = draw(st.integers(2, 4))
        spec.update(k=k, sep=draw(st.sampled_from([0.1, 0.3, 0.6])),
                    weights=draw(st.lists(st.sampled_from([1.0, 1.0, 0.3, 3.0]),
                                          min_size=k, max_size=k)))
    if fam in ('face', 'wrapped'):
        spec.update(nface=draw(st.integers(1, min(d, 3))),
                    offset=draw(st.sampled_from([1e-9, 1e-6, 1e-3])))
    if fam in ('face', 'wrapped', 'uniform'):
        spec['exact_face'] = draw(st.booleans())
    if draw(st.integers(0, 9)) == 0:
        spec['dups'] = draw(st.integers(1, 3))
    if allow_outside and draw(st.integers(0, 3)) == 0:
        spec['fold'] = 'none'
    return spec


def gaussian_log_l(points, centre=None):
    """A smooth log-likelihood over a point set (for neural/nautilus bounds)."""
    if centre is None:
        centre = np.median(points, axis=0)
    s = np.std(points, axis=0) + 1e-12
    return -0.5 * np.sum(((points - centre) / s) ** 2, axis=1)
