import sys
from nv.core import run_shard_main

if __name__ == '__main__':
    run_shard_main(sys.argv[1:])
