"""Driver for sampler-level properties: build samplers from JSON configs, step
them one batch at a time, observe them at every documented mutation point."""

import os
import shutil
import tempfile
import warnings

import numpy as np
from hypothesis import strategies as st

from nv import problems as pr

NN_KW = dict(hidden_layer_sizes=(8,), max_iter=25)
# for the statistical ensembles (C04): a network good enough not to carve a
# mode out of the bound (the tiny one does, which is a convergence failure of
# the harness's own cost saving, not of nautilus)
NN_MEDIUM = dict(hidden_layer_sizes=(50, 20), max_iter=2000)


# ------------------------------------------------------------------ configs

@st.composite
def configs(draw, d, networks=(0, 0, 0, 1), periodic_ok=True, pools=('none',),
            max_live=150, batch=None, vectorized=None, small_update=True):
    n_live = draw(st.integers(4 * d, max_live))
    n_batch = draw(batch if batch is not None else st.sampled_from(
        [1, 1, 2, 3, 5, 8, 13, 20, 40]))
    cfg = dict(
        n_live=n_live, n_batch=n_batch,
        n_update=draw(st.sampled_from(
            [None, max(1, n_live // 4), max(1, n_live // 2)] +
            ([3, 10] if small_update else []))),
        n_like_new_bound=draw(st.sampled_from([None, None, 3 * n_live])),
        n_points_min=draw(st.sampled_from([None, d + 1, d + 5, d + 20])),
        split_threshold=draw(st.sampled_from([1, 10, 100])),
        enlarge_per_dim=draw(st.sampled_from([1.05, 1.1, 1.3, 1.6])),
        n_networks=draw(st.sampled_from(list(networks))),
        periodic=None,
        seed=draw(st.integers(0, 2 ** 31 - 1)),
        vectorized=draw(st.booleans()) if vectorized is None else vectorized,
        pool=draw(st.sampled_from(list(pools))),
        f_live=draw(st.sampled_from([0.5, 0.2, 0.05, 0.01])),
        n_shell=draw(st.sampled_from([1, 1, 3, 10])),
        n_eff=draw(st.sampled_from([0, 50, 200, 500])),
        discard_exploration=draw(st.booleans()))
    cfg['ext'] = draw(st.sampled_from(['hdf5', 'hdf5', 'h5', 'dots']))
    if cfg['n_networks'] > 0:
        # non-default MLPRegressor keyword (documented neural_network_kwargs)
        cfg['nn'] = draw(st.sampled_from(['tiny', 'tiny', 'tanh']))
    if periodic_ok and draw(st.integers(0, 3)) == 0:
        cfg['periodic'] = sorted(draw(st.lists(
            st.integers(0, d - 1), min_size=1, max_size=min(d, 2),
            unique=True)))
    return cfg


def ckpt_name(cfg):
    """File name of the checkpoint: both documented extensions and a name
    with inner dots are legal."""
    return {'h5': 'ckpt.h5', 'dots': 'run.v1.hdf5.h5'}.get(
        cfg.get('ext'), 'ckpt.hdf5')


def run_kwargs(cfg, **over):
    kw = dict(f_live=cfg['f_live'], n_shell=cfg['n_shell'],
              n_eff=cfg['n_eff'],
              discard_exploration=cfg['discard_exploration'])
    kw.update(over)
    return kw


class FakeClock:
    """Replacement for nautilus.sampler.time: the first `budget` readings
    return 0, later ones a large value."""

    def __init__(self):
        self.budget = 10 ** 12
        self.reads = 0

    def __call__(self):
        self.reads += 1
        self.budget -= 1
        return 0.0 if self.budget >= 0 else 1e9

    def allow(self, k):
        # run(): one reading for t_start, one per loop check
        self.budget = k + 1


class Lab:
    """One sampler (possibly re-created from its checkpoint) + its problem."""

    def __init__(self, spec, cfg, use_file=False, observers=None,
                 log_calls=True, workdir=None, clock=False, verbose=False,
                 resume_initial=False, keep_workdir=False):
        warnings.simplefilter('ignore')
        self.spec, self.cfg = spec, cfg
        self.problem = pr.Problem(spec)
        self.prior = pr.make_prior(spec)
        self.verbose = verbose
        if log_calls:
            self.problem.log = []
            self.problem.batch_rows = []
            if isinstance(self.prior, pr.PriorFn):
                self.prior.log = []
        self.observers = observers or []
        self.workdir = None
        self.filepath = None
        if use_file:
            self.workdir = workdir or tempfile.mkdtemp(
                prefix='nvlab-', dir=os.environ.get('NV_SCRATCH') or None)
            self.filepath = os.path.join(self.workdir, ckpt_name(cfg))
        self.pool_objs = []
        self.n_bound_attempts = 0
        self.n_batches = 0
        self.clock = None
        if clock:
            import nautilus.sampler as ns
            self.clock = FakeClock()
            self._real_time = ns.time
            ns.time = self.clock
        self.sampler = None
        self.keep_workdir = keep_workdir
        self.make(resume=resume_initial)

    # -- construction -------------------------------------------------------
    def pool_arg(self):
        p = self.cfg.get('pool', 'none')
        if p == 'none':
            return None
        if isinstance(p, int):
            self.problem.count_shared = True
            return p
        if isinstance(p, str) and p.startswith('lint'):
            # likelihood pool only: (k, None)
            self.problem.count_shared = True
            return (int(p[4:]), None)
        if isinstance(p, str) and p.startswith('lmp'):
            import multiprocessing
            self.problem.count_shared = True
            po = multiprocessing.Pool(int(p[3:]))
            self.pool_objs.append(po)
            return (po, None)
        if isinstance(p, str) and p.startswith('int'):
            self.problem.count_shared = True
            return int(p[3:])
        if isinstance(p, str) and p.startswith('mp'):
            import multiprocessing
            self.problem.count_shared = True
            po = multiprocessing.Pool(int(p[2:]))
            self.pool_objs.append(po)
            return po
        if isinstance(p, str) and p.startswith('both'):
            # likelihood pool and sampler pool of the same size
            self.problem.count_shared = True
            return int(p[4:])
        if isinstance(p, str) and p.startswith('spool'):
            # sampler pool only: (None, k)
            return (None, int(p[5:]))
        if isinstance(p, dict) and p.get('kind') == 'perm':
            po = PermutingPool(p['size'], p['seed'])
            self.pool_objs.append(po)
            return (po, None)
        raise ValueError(p)

    def make(self, resume):
        from nautilus import Sampler
        cfg, spec = self.cfg, self.spec
        self.close_pools()
        kw = dict(
            n_live=cfg['n_live'], n_update=cfg['n_update'],
            enlarge_per_dim=cfg['enlarge_per_dim'],
            n_points_min=cfg['n_points_min'],
            split_threshold=cfg['split_threshold'],
            periodic=None if cfg['periodic'] is None else np.array(
                cfg['periodic'], dtype=int),
            n_networks=cfg['n_networks'],
            neural_network_kwargs=dict(
                NN_MEDIUM if cfg.get('nn') == 'medium' else
                dict(NN_KW, activation='tanh') if cfg.get('nn') == 'tanh'
                else NN_KW),
            n_batch=cfg['n_batch'], n_like_new_bound=cfg['n_like_new_bound'],
            vectorized=cfg['vectorized'], pass_dict=pr.pass_dict_for(spec),
            pool=self.pool_arg(), seed=cfg['seed'],
            blobs_dtype=self.problem.blobs_dtype(), filepath=self.filepath,
            resume=resume)
        if isinstance(self.prior, pr.PriorFn):
            kw['n_dim'] = spec['d']
        if spec.get('tilt'):
            kw['likelihood_kwargs'] = dict(tilt=spec['tilt'])
        s = Sampler(self.prior, self.problem, **kw)
        self.sampler = s
        self._wrap(s)
        return s

    def _wrap(self, s):
        lab = self

        def wrap(name):
            orig = getattr(s, name, None)
            if orig is None:
                return False

            def wrapped(*a, **k):
                out = orig(*a, **k)
                if name == 'add_bound':
                    lab.n_bound_attempts += 1
                if name == 'add_samples':
                    lab.n_batches += 1
                for ob in lab.observers:
                    ob(name, lab, a, out)
                return out
            setattr(s, name, wrapped)
            return True
        self.hooked = [n for n in ('add_bound', 'add_samples', 'write',
                                   'write_shell_update') if wrap(n)]

    def peek(self):
        """A second sampler object built from a copy of the checkpoint file
        as it is right now (the live object is untouched).  No pools."""
        from nautilus import Sampler
        d = tempfile.mkdtemp(prefix='nvpeek-', dir=self.workdir)
        f = os.path.join(d, ckpt_name(self.cfg))
        shutil.copyfile(self.filepath, f)
        cfg, spec = self.cfg, self.spec
        kw = dict(
            n_live=cfg['n_live'], n_update=cfg['n_update'],
            enlarge_per_dim=cfg['enlarge_per_dim'],
            n_points_min=cfg['n_points_min'],
            split_threshold=cfg['split_threshold'],
            periodic=None if cfg['periodic'] is None else np.array(
                cfg['periodic'], dtype=int),
            n_networks=cfg['n_networks'], n_batch=cfg['n_batch'],
            n_like_new_bound=cfg['n_like_new_bound'],
            vectorized=cfg['vectorized'], pass_dict=pr.pass_dict_for(spec),
            seed=cfg['seed'], blobs_dtype=self.problem.blobs_dtype(),
            filepath=f, resume=True)
        if isinstance(self.prior, pr.PriorFn):
            kw['n_dim'] = spec['d']
        if spec.get('tilt'):
            kw['likelihood_kwargs'] = dict(tilt=spec['tilt'])
        s = Sampler(self.prior, self.problem, **kw)
        shutil.rmtree(d, ignore_errors=True)
        return s

    def resume(self):
        """Drop the object and rebuild it from the checkpoint file."""
        assert self.filepath is not None
        self.close_sampler_pools()
        self.make(resume=True)

    # -- running ------------------------------------------------------------
    def run(self, **over):
        kw = run_kwargs(self.cfg, **over)
        if self.verbose:
            kw['verbose'] = True
        return self.sampler.run(**kw)

    def step(self, k=1, **over):
        """Advance by exactly k batches (or fewer if the run succeeds)."""
        out = None
        for _ in range(k):
            out = self.run(n_like_max=self.sampler.n_like + 1, **over)
            if out:
                break
        return out

    def step_timeout(self, k, **over):
        assert self.clock is not None
        self.clock.allow(k)
        out = self.run(timeout=1.0, **over)
        self.clock.budget = 10 ** 12
        return out

    def capped(self, max_bounds=12, max_batches=150):
        return (self.n_bound_attempts >= max_bounds or
                self.n_batches >= max_batches)

    # -- teardown -----------------------------------------------------------
    def close_sampler_pools(self):
        s = self.sampler
        if s is None:
            return
        for p in (getattr(s, 'pool_l', None), getattr(s, 'pool_s', None)):
            po = getattr(p, 'pool', None)
            if po is not None and hasattr(po, 'terminate'):
                try:
                    po.terminate()
                    po.join()
                except Exception:
                    pass

    def close_pools(self):
        self.close_sampler_pools()
        for po in self.pool_objs:
            try:
                po.terminate()
                po.join()
            except Exception:
                pass
        self.pool_objs = []

    def close(self):
        self.close_pools()
        if self.clock is not None:
            import nautilus.sampler as ns
            ns.time = self._real_time
            self.clock = None
        if self.workdir is not None and not self.keep_workdir:
            shutil.rmtree(self.workdir, ignore_errors=True)


class PermutingPool:
    """A pool object whose map evaluates the items in a seeded permutation
    and chunking and returns the results in input order (the harness owns the
    schedule).  Only ever used as the likelihood pool."""

    def __init__(self, size, seed):
        self.size = size
        self.rng = np.random.default_rng(seed)

    def map(self, func, iterable):
        items = list(iterable)
        order = self.rng.permutation(len(items))
        out = [None] * len(items)
        for i in order:
            out[i] = func(items[i])
        return out

    def imap(self, func, iterable, chunksize=1):
        return iter(self.map(func, iterable))

    def imap_unordered(self, func, iterable, chunksize=1):
        # completion order = evaluation order
        items = list(iterable)
        for i in self.rng.permutation(len(items)):
            yield func(items[i])

    def terminate(self):
        pass

    def join(self):
        pass


# --------------------------------------------------------------- digests

def state_digest(s, with_blobs=True):
    """SHA-256 over everything C05/C11 call 'the result'."""
    import hashlib
    h = hashlib.sha256()
    h.update(repr((int(s.n_like), bool(s.explored),
                   [len(p) for p in s.points])).encode())
    for p, ll in zip(s.points, s.log_l):
        h.update(np.ascontiguousarray(p).tobytes())
        h.update(np.ascontiguousarray(ll).tobytes())
    if with_blobs and s.blobs is not None:
        for b in s.blobs:
            h.update(np.ascontiguousarray(b).tobytes())
    lz = s.log_z
    h.update(repr(None if lz is None else np.float64(lz).tobytes()).encode())
    h.update(np.float64(s.n_eff).tobytes())
    return h.hexdigest()


def posterior_digest(s):
    import hashlib
    h = hashlib.sha256()
    try:
        out = s.posterior(return_blobs=s.blobs is not None)
    except Exception as e:
        return 'posterior-raises:%s' % type(e).__name__
    pts = out[0]
    if isinstance(pts, dict):
        for k in sorted(pts):
            h.update(np.ascontiguousarray(pts[k]).tobytes())
    elif pts.dtype == object:
        for row in pts:
            for k in sorted(row):
                h.update(np.float64(row[k]).tobytes())
    else:
        h.update(np.ascontiguousarray(pts).tobytes())
    for a in out[1:]:
        h.update(np.ascontiguousarray(a).tobytes())
    return h.hexdigest()


def internal_digest(s):
    """SHA-256 over the state the next batch depends on besides the samples:
    random generator, iteration counters, transfer arrays and, for every
    bound, all numeric attributes reachable through nautilus objects
    (proposal caches, counters, member ellipsoids).  Never used as an oracle
    - two objects may differ here and still behave the same - only to decide
    where a check spends its budget (C05: a resumed object whose internal
    state differs from the in-memory object it replaces is followed to the
    end of the run instead of a few batches)."""
    import hashlib
    h = hashlib.sha256()
    seen = set()

    def walk(x, depth=0):
        if depth > 8:
            return
        if x is None or isinstance(x, (bool, int, float, str, np.generic)):
            if isinstance(x, (np.generic, int, float)) and not isinstance(
                    x, (bool, np.bool_, str)):
                h.update(np.float64(x).tobytes())
            else:
                h.update(repr(x).encode())
        elif isinstance(x, np.ndarray):
            if x.dtype == object:
                for y in x.ravel():
                    walk(y, depth + 1)
            elif x.dtype.kind in 'fiub':
                h.update(repr(x.size).encode())
                h.update(np.ascontiguousarray(x, dtype=float).tobytes())
            else:
                h.update(x.tobytes())
        elif isinstance(x, (list, tuple)):
            h.update(b'[%d' % len(x))
            for y in x:
                walk(y, depth + 1)
        elif isinstance(x, np.random.Generator):
            h.update(repr(x.bit_generator.state).encode())
        elif type(x).__module__.startswith('nautilus') and hasattr(
                x, '__dict__'):
            if id(x) in seen:
                return
            seen.add(id(x))
            h.update(type(x).__name__.encode())
            for k in sorted(vars(x)):
                # block: split bookkeeping that is rebuilt, not stored;
                # periodic: list in memory, array after a read
                if k in ('pool', 'pool_s', 'pool_l', 'block', 'periodic'):
                    continue
                h.update(k.encode())
                walk(vars(x)[k], depth + 1)
        # anything else (scikit-learn networks, pools) is left out

    walk(s.rng)
    for k in ('n_update_iter', 'n_like_iter', 'shell_t', 'points_t',
              'log_l_t'):
        walk(getattr(s, k, None))
    for b in s.bounds:
        walk(b)
    return h.hexdigest()
