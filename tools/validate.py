#!/opt/veriftools/pyvenv/bin/python
"""Validate MANIFEST.json and evidence/*.json against the schemas (dev tool)."""
import glob
import json
import sys
import jsonschema

ok = True
m = json.load(open('/verif/MANIFEST.json'))
jsonschema.validate(m, json.load(open('/root/.vp/MANIFEST.schema.json')))
print('MANIFEST ok: %d checks, %d not_applicable' % (
    len(m['checks']), len(m.get('not_applicable', []))))
es = json.load(open('/root/.vp/EVIDENCE.schema.json'))
for f in sorted(glob.glob('/verif/evidence/*.json')):
    try:
        jsonschema.validate(json.load(open(f)), es)
        print('ok', f)
    except Exception as e:
        ok = False
        print('INVALID', f, str(e)[:300])
sys.exit(0 if ok else 1)
