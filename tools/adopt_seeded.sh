#!/bin/bash
# usage: tools/adopt_seeded.sh <Cxx> [name]   (reads /tmp/wt-<Cxx>/_seeded/)
# Confirms a sub-agent's seeded change in a fresh scratch copy of /repo:
#  patch applies, demo passes on the original and fails with the change, the
#  existing test suite still passes; then stores it under /verif/seeded/<name>/
#  and runs the property's quick check against it.
set -u
prop=$1; name=${2:-$1}
src=${SRC_DIR:-${SRC_PREFIX:-/tmp/wt-}$prop/_seeded}
dst=/verif/seeded/$name
[ -f "$src/patch.diff" ] || { echo "no patch in $src"; exit 2; }
tmp=$(mktemp -d /tmp/adopt.XXXXXX)
mkdir -p "$tmp/orig" "$tmp/mut"
git -C /repo archive HEAD | tar -x -C "$tmp/orig"
git -C /repo archive HEAD | tar -x -C "$tmp/mut"
( cd "$tmp/mut" && patch -p1 -s < "$src/patch.diff" ) || { echo "PATCH-FAILED"; rm -rf "$tmp"; exit 3; }
cp "$src/demo.py" "$tmp/demo.py"
( cd "$tmp" && PYTHONPATH="$tmp/orig" timeout 1800 /venv/bin/python demo.py > "$tmp/demo_orig.log" 2>&1 ); rc_orig=$?
( cd "$tmp" && PYTHONPATH="$tmp/mut" timeout 1800 /venv/bin/python demo.py > "$tmp/demo_mut.log" 2>&1 ); rc_mut=$?
echo "demo: original rc=$rc_orig, with change rc=$rc_mut"
( cd "$tmp/mut" && PYTHONPATH="$tmp/mut" timeout 3000 /venv/bin/python -m pytest -q -p no:cacheprovider --timeout=900 tests > "$tmp/tests.log" 2>&1 ); rc_tests=$?
tests_line=$(tail -n 1 "$tmp/tests.log")
echo "tests with change: rc=$rc_tests $tests_line"
mkdir -p "$dst"
cp "$src/patch.diff" "$dst/patch.diff"; cp "$src/demo.py" "$dst/demo.py"; [ -f "$src/notes.md" ] && cp "$src/notes.md" "$dst/notes.md"
chk=$(MUT_LINES=6 /verif/tools/mutant_run.sh "$dst/patch.diff" "$prop" quick 2>&1); rc_chk=$?
echo "$chk" | tail -n 4
/venv/bin/python - "$dst" "$prop" "$rc_orig" "$rc_mut" "$rc_tests" "$tests_line" "$rc_chk" <<PY
import json, sys, subprocess
dst, prop, rc_orig, rc_mut, rc_tests, tests_line, rc_chk = sys.argv[1:8]
chk = """$(echo "$chk" | grep -E "bucket|mutant" | head -4 | sed 's/"/\\"/g')"""
meta = dict(property=prop, origin='independent sub-agent given only the property text and a scratch worktree',
            demo_on_original_rc=int(rc_orig), demo_with_change_rc=int(rc_mut),
            existing_tests_with_change=dict(rc=int(rc_tests), summary=tests_line),
            check_quick_rc=int(rc_chk), check_output=chk.strip().split('\n'),
            ran=['patch applied to a scratch copy of /repo HEAD (git archive)',
                 'PYTHONPATH=<orig|mut> /venv/bin/python demo.py',
                 'PYTHONPATH=<mut> /venv/bin/python -m pytest -q tests',
                 'tools/mutant_run.sh seeded/%s/patch.diff %s quick' % (dst.split('/')[-1], prop)],
            repo_head=subprocess.run(['git','-C','/repo','log','--format=%h','-1'],capture_output=True,text=True).stdout.strip())
json.dump(meta, open(dst + '/meta.json', 'w'), indent=1)
PY
rm -rf "$tmp"
echo "adopted $name: demo orig=$rc_orig mut=$rc_mut tests=$rc_tests check=$rc_chk"
