#!/bin/bash
# usage: tools/sweep.sh "<seeds>" [tier] [props...]  - run checks on the unchanged tree
seeds=${1:-1}; tier=${2:-quick}; shift; shift
props=${@:-C01 C02 C03 C04 C05 C06 C07 C08 C09 C10 C11 C12 C13 C14 C15 C16}
here=$(cd "$(dirname "$0")/.." && pwd)
for s in $seeds; do for p in $props; do
  out=$(VERIF_SEED=$s "$here/check" $p $tier 2>&1); rc=$?
  echo "seed=$s $p $tier rc=$rc :: $(echo "$out" | grep -E "^C[0-9]+ (quick|thorough)" | tail -1)"
  if [ $rc -ne 0 ]; then echo "$out" | grep -E "VIOLATION|HARNESS|bucket" | head -8; fi
done; done
