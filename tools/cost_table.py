#!/venv/bin/python
"""Print a markdown table of what the committed evidence files report."""
import glob
import json

print('| id | tier | wall s | evaluations | distinct non-trivial | classes (count) |')
print('|---|---|---|---|---|---|')
for f in sorted(glob.glob('/verif/evidence/*.json')):
    e = json.load(open(f))
    c = e['coverage']
    cl = ', '.join('%s %d' % kv for kv in sorted(
        c.get('classes', {}).items(), key=lambda kv: -kv[1])[:6])
    print('| %s | %s | %.0f | %d | %d | %s |' % (
        e['property_id'], e['tier'], e['wall_s'], c['evaluations'],
        c['distinct_nontrivial'], cl))
