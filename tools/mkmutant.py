#!/venv/bin/python
"""tools/mkmutant.py <name> <file-in-repo> <old> <new>  -> mutants/<name>.patch
The replacement must match exactly once.  Nothing in /repo is touched."""
import difflib
import sys

name, rel, old, new = sys.argv[1:5]
old = old.encode().decode('unicode_escape')
new = new.encode().decode('unicode_escape')
src = open('/repo/' + rel).read()
assert src.count(old) == 1, 'pattern occurs %d times' % src.count(old)
dst = src.replace(old, new)
diff = difflib.unified_diff(src.splitlines(True), dst.splitlines(True),
                            'a/' + rel, 'b/' + rel)
open('/verif/mutants/%s.patch' % name, 'w').write(''.join(diff))
print('wrote mutants/%s.patch' % name)
