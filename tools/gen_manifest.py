#!/venv/bin/python
"""Regenerate MANIFEST.json from the table below (keeps it schema-valid)."""
import json
import os

HERE = os.path.dirname(os.path.dirname(os.path.abspath(__file__)))

CHECKS = {
    'C16': dict(
        category='exploration', design_ref='DESIGN.md §16 (C16)',
        text='Hypothesis-generated construction sets, periodic index sets '
             'and boundary-directed probes (wrap position ± ulp, 0, 1-ulp) '
             'checked against a range / identity / inverse / largest-gap '
             'oracle; thousands of cases per run. Exploration, not proof: '
             'float inputs are sampled, but the narrow region that matters '
             'is reached by construction.',
        note='Trusts numpy float64 semantics; inverse compared with a '
             '4-ulp circular tolerance as the statement allows.',
        technique='property-based testing (Hypothesis), boundary-directed '
                  'generators, range/inverse/gap oracle'),
}

CHECKS['C15'] = dict(
    category='exploration', design_ref='DESIGN.md §16 (C15)',
    text='Every declaration sequence up to length 4 (quick) / 5 (thorough) '
         'over a 28-symbol alphabet of valid and malformed declarations is '
         'enumerated (every node of the prefix tree checked: acceptance or '
         'ValueError/TypeError, state unchanged after rejection, '
         'dimensionality, both transforms vs a reference interpreter and a '
         'CDF round trip), plus Hypothesis sequences up to length 12 with '
         'drawn distributions. Exhaustive over the alphabet to length L, '
         'sampled beyond.',
    note='Trusts scipy.stats cdf as the independent inverse (1e-9); '
         'parameters of the reduced alphabet are one representative per '
         'kind; unit-cube inputs are sampled.',
    technique='exhaustive sequence enumeration + Hypothesis sequences vs '
              'reference interpreter (model-based), CDF round trip')

CHECKS['C13'] = dict(
    category='exploration', design_ref='DESIGN.md §14 (C13)',
    text='For each Hypothesis-generated clustered point set every operation '
         'sequence up to length 4 (quick) / 6 (thorough) over {split, '
         'split(allow_overlap=False), trim(1.01), trim(), sample(137)} is '
         'executed by a DFS with deep copies, and after every operation the '
         'per-ellipsoid records are compared with a reference model '
         '(alignment, volume record, flags, row multiset, children >= '
         'minimum, volume non-increase, refused => unchanged, no raise). '
         'Exhaustive over the operation alphabet per point set; point sets '
         'are sampled.',
    note='Point sets in general position only; records read through the '
         'documented attributes of Union; subtrees below a refused '
         'no-change operation are pruned.',
    technique='exhaustive operation-sequence enumeration (DFS with state '
              'copies) on generated inputs vs reference model')

CHECKS['C09'] = dict(
    category='exploration', design_ref='DESIGN.md §10 (C09)',
    text='Hypothesis-generated bound recipes (all six classes, unit T/F, '
         'periodic, 0..2 networks, d=1..8) with pre-write histories of '
         'split/trim/sample/log_v; each is written to an HDF5 group, read '
         'back with a generator cloned from the writer\'s, and compared in '
         'lock-step: contains on probes, log_v bit-identical, several '
         'sample(n) calls bit-identical across cache refills, equal final '
         'generator state; then update+read vs write+read incl. logical '
         'file content. About a thousand bounds per quick run.',
    note='In-memory HDF5 (core driver); probes are sampled points (uniform, '
         'own samples, near ellipsoid surfaces), not all points; recipes '
         'whose rejection sampler has < 2 % acceptance are skipped (slow).',
    technique='property-based testing (Hypothesis), round-trip differential '
              'under cloned RNG')

CHECKS['C07'] = dict(
    category='exploration', design_ref='DESIGN.md §8 (C07)',
    text='Hypothesis-generated point sets (d=1..8, clustered, elongated, '
         'curved, on faces/corners incl. coordinates exactly 0.0 and '
         '1-2^-53, wrapped) and bound recipes of every class; checks '
         'contains(sample(n)) across cache boundaries, cube membership, '
         'enclosure of the rows each member was built from after every '
         'split/trim, neural/nautilus contains => outer bound contains, '
         'serial and through NautilusPool(2..3), and on the read-back copy.',
    note='Real PCG64 variates only; general-position point sets; '
         'NautilusBound recipes with < 2 % acceptance are skipped.',
    technique='property-based testing (Hypothesis) with validity-predicate '
              'oracles over generated inputs and operation histories')

CHECKS['C08'] = dict(
    category='exploration', design_ref='DESIGN.md §9 (C08)',
    text='Statistical exploration: for Hypothesis-generated overlapping / '
         'face-cut unions and nautilus bounds (serial, pool, after a '
         'write/read round trip) a two-sample G-test compares bound.sample() '
         'with exact rejection sampling through contains() over classes '
         '(multiplicity, first member, quadrant), and a z-test compares '
         'exp(log_v) with a Monte-Carlo volume using the bound\'s own '
         'variance; single ellipsoids d=1..8 are checked in closed form '
         'against the matrix contains() uses. Each test at p<1e-9 with a '
         'confirmation stage (fresh draws, 4x sample).',
    note='Detects distribution errors above roughly 1-2 % in class '
         'probabilities at 20k samples; d=2..4 for the statistical clauses; '
         'false-alarm probability per case < 1e-17.',
    technique='property-based testing (Hypothesis) with statistical '
              'differential oracle (G-test vs rejection sampling, z-test)')

CHECKS['C01'] = dict(
    category='exploration', design_ref='DESIGN.md §2 (C01)',
    text='Hypothesis-generated likelihoods (10 families incl. non-nested '
         'funnel, -inf regions, plateaus, periodic wrap), configurations and '
         'run/resume histories with a checkpoint file; the membership '
         'predicate (in cube, in own bound, outside every later bound, '
         'shell_association agrees, no row in two shells or pending and '
         'stored) is evaluated on all stored points after every add_bound, '
         'add_samples, write, write_shell_update and operation, and on a second '
         'sampler loaded from a copy of the file after every sixth checkpoint '
         'write: tens of thousands of observation instants and millions of '
         'rows per run. One case in five is the tiny-batch configuration in '
         'which a third of the shells end up empty.',
    note='d<=5, <=12 bound constructions and <=150 batches per case; tiny '
         'networks; uses the bounds\' own contains() as the predicate.',
    technique='property-based testing (Hypothesis) of generated histories '
              'with an invariant oracle at every observation point')
CHECKS['C02'] = dict(
    category='exploration', design_ref='DESIGN.md §3 (C02)',
    text='Same generated histories plus discard toggles and -inf families; '
         'at every observation point shell counts, volumes, log_z, n_eff, '
         'eta and posterior() weights/order are compared with an independent '
         're-derivation from the raw stored arrays (split between '
         'exploration and sampling rows taken from the harness\'s own '
         'record), the bookkeeping arrays are checked for alignment, and the '
         'same recomputation is applied to a second sampler loaded from a '
         'copy of the checkpoint file.',
    note='Tolerance 1e-9 relative on log quantities, 1e-7 on n_eff/eta; '
         'trusts bounds[i].log_v as the bound volume.',
    technique='property-based testing (Hypothesis), differential against an '
              'independent reference implementation of the estimators')
CHECKS['C03'] = dict(
    category='exploration', design_ref='DESIGN.md §4 (C03)',
    text='Product of evaluation mode x argument form x 9 blob kinds x batch '
         'size (1 weighted high) x prior kinds (incl. in-place modifying '
         'function, dict function, Prior with fixed/linked keys) x pools x '
         'histories with transfers, toggles and resumes; every posterior row '
         'is looked up in the call log of the instrumented pure likelihood '
         '(bit-equal log L and blob), rows distinct, lengths/dtype right.',
    note='Pool modes are checked by re-evaluating the pure likelihood; blob '
         'dtypes limited to what HDF5 stores; vectorized + integer pool is '
         'excluded (nautilus calls the worker stub in the parent).',
    technique='property-based testing (Hypothesis) with call-log oracle of '
              'an instrumented pure likelihood')

CHECKS['C10'] = dict(
    category='exploration', design_ref='DESIGN.md §11 (C10)',
    text='Hypothesis-generated histories of run() calls with drawn limits '
         '(n_like_max below/at/above the count and off batch multiples, '
         'fake-clock timeouts incl. zero, n_shell, n_eff) and resumes; the '
         'call log of instrumented prior and likelihood (shared counter for '
         'worker pools) is compared with n_like after every run and resume, '
         'every step must evaluate exactly n_batch rows (one call when '
         'vectorised), every prior argument lies in [0,1), the budget '
         'clauses hold, and the return value equals the success predicate '
         'recomputed with independent estimators.',
    note='Clock is nautilus.sampler.time replaced by a fake; n_eff ties '
         'within 1e-6 are skipped as ambiguous; an unlimited run is capped '
         'at 40 batches to bound case cost.',
    technique='property-based testing (Hypothesis) over call histories with '
              'a call-log oracle and fake clock')

CHECKS['C12'] = dict(
    category='exploration', design_ref='DESIGN.md §13 (C12)',
    text='Hypothesis RuleBasedStateMachine over a real checkpointed sampler: '
         'rules step / fake-clock timeout step / toggle at any boundary / '
         'run(discard_exploration=v) / resume / accessor. After every rule: '
         'explored monotone, bounds frozen (count + contains on probes), '
         'no empty shell, stored arrays extend the previous snapshot '
         'byte-for-byte, the visible rows and all statistics equal the '
         'recomputation from the harness-recorded split, statistics return '
         'bit-for-bit when a view is revisited, a resumed object is '
         'self-consistent and bit-identical once given the same flag.',
    note='Histories are sampled (hundreds per quick run, 30-45 rules each); '
         'a toggle never followed by a checkpoint write is not required to '
         'survive a resume.',
    technique='stateful / model-based property testing (Hypothesis '
              'RuleBasedStateMachine) with invariants after every rule')

CHECKS['C05'] = dict(
    category='exploration', design_ref='DESIGN.md §6 (C05)',
    text='Differential: for Hypothesis-generated configurations (networks, '
         'periodic, 9 blob kinds, discard, vectorised, 4 prior kinds) one '
         'uninterrupted run is the reference (batch sizes 1..250, checkpoint '
         'names *.hdf5 / *.h5); the same run is cut at every '
         'batch boundary by n_like_max and by fake-clock timeouts, and a new '
         'sampler is resumed from a copy of the checkpoint at every boundary '
         '(thorough: each continued to the end; quick: stratified '
         'boundaries continued to the end, all others advanced two batches '
         'and compared with the sliced run), plus a multi-resume sequence. '
         'Posterior arrays, log_z, n_eff, n_like and shell lengths must be '
         'bit-identical and the sequence of evaluated points equal.',
    note='Runs limited to 25-90 batches (45 in quick) by a total n_like_max '
         'shared with the reference; bit-exact likelihood families; tiny '
         'networks.',
    technique='property-based testing (Hypothesis) with differential oracle '
              'over exhaustive per-run cut points')

CHECKS['C11'] = dict(
    category='exploration', design_ref='DESIGN.md §12 (C11)',
    text='Metamorphic pairs: a base run and 2-4 variants differing in exactly '
         'one invisible dimension (same again in-process and in a fresh '
         'interpreter, scalar/vectorised, likelihood pool none / int 2-4 / '
         'external multiprocessing.Pool / a permuting pool whose evaluation '
         'order is drawn by Hypothesis, verbose, checkpoint file, drawn '
         'accessor interleavings between batches); SHA-256 digests of '
         'posterior arrays, log_z, n_eff, n_like and shell lengths must be '
         'equal at every batch boundary.',
    note='OS scheduling of real pools is sampled, the permuting pool models '
         'arbitrary evaluation order; only the likelihood pool is varied '
         '(pool=(k, None)) because an integer pool argument also changes the '
         'sampler pool; 20-50 batches per run.',
    technique='property-based testing (Hypothesis), metamorphic / '
              'differential pairs with harness-owned schedules')

CHECKS['C14'] = dict(
    category='exploration', design_ref='DESIGN.md §15 (C14)',
    text='Weight vectors from hundreds of short generated runs (incl. exact '
         'zero weights and a few dominant weights) x boosts (1, 1+-ulp, '
         'log-uniform 0.01..50) x 300 (quick) / 1500 (thorough) resampling '
         'draws: multiplicities are decoded from the returned rows and must '
         'lie in {floor(r), floor(r)+1} (exactly r for integer r, no repeats '
         'for boost<=1), order / log L / blobs preserved, weights equal and '
         'normalised, weighted posterior unchanged; the mean is tested per '
         'row (exact binomial, Bonferroni) and aggregated (z-test) with a '
         'confirmation stage.',
    note='Statistical clause at overall level 1e-9; a common relative bias '
         'of about 3 % in the rounding probability is detected in quick.',
    technique='property-based testing (Hypothesis) with set-membership and '
              'statistical (binomial) oracles over many draws')

CHECKS['C06'] = dict(
    category='fault_enumeration', design_ref='DESIGN.md §7 (C06)',
    text='Fault enumeration: a Hypothesis-drawn checkpointed run (file name '
         '*.hdf5, *.h5 or with inner dots) executes in '
         'a child under strace; every file-mutating syscall on any path of '
         'its private directory is a crash point (exhaustive per run, ~10k '
         'crash points per quick run). The file a kill would leave is '
         'rebuilt by prefix replay and must be absent-or-S_1 before the '
         'first checkpoint and afterwards present, readable and logically '
         'equal (all groups, datasets, attributes) to the last completed or '
         'the in-progress snapshot. The replay model is validated against '
         'the real final file and against real SIGKILLs injected by strace; '
         'sampled crash directories are resumed and must continue exactly '
         'like the clean snapshot they hold.',
    note='Process kill only (page cache survives; no fsync ordering / power '
         'loss); runs are sampled, crash points per run are exhaustive; '
         'depends on strace being allowed to ptrace.',
    technique='fault injection / crash-point enumeration by syscall-prefix '
              'replay over generated runs, validated with real SIGKILLs')

CHECKS['C04'] = dict(
    category='exploration', design_ref='DESIGN.md §5 (C04)',
    text='Statistical exploration over seed ensembles: Hypothesis draws '
         'cells (closed-form problem x configuration incl. networks, '
         'periodic, sampler pool, split_threshold 1, discard on/off) and '
         'each run always contains two stratified cells (edge mode through the '
         'sampler pool; two overlapping modes with forced multi-ellipsoid '
         'bounds); each cell is run with 48 (quick) / 192 (thorough) independent '
         'seeds to convergence; per run the reported error must cover the '
         'analytic log Z and posterior means, per cell a Student-t test '
         '(|t|<=6.5) of log Z error, posterior means and sum of shell '
         'volumes minus one; an exceedance is confirmed with fresh seeds '
         'and twice the ensemble before it counts.',
    note='Sees biases of about 1 % (quick) / 0.3 % (thorough) in log Z; '
         'well-converged regime only (>=300 live points, medium-size '
         'network); keeping the exploration phase gets a 0.02 allowance.',
    technique='property-based testing (Hypothesis) over seed ensembles with '
              'analytic oracle and t-tests + confirmation stage')

NOT_YET = {}


def main():
    props = [json.loads(line) for line in open(
        os.path.join(HERE, 'properties.jsonl'))]
    checks = []
    na = []
    for p in props:
        pid = p['id']
        if pid in CHECKS:
            c = CHECKS[pid]
            checks.append(dict(
                property_id=pid,
                quick_cmd='./check %s quick' % pid,
                thorough_cmd='./check %s thorough' % pid,
                evidence_file='/verif/evidence/%s.json' % pid,
                replay_cmd_template='./check replay {path}',
                engine='nv',
                level_claimed=dict(category=c['category'], text=c['text'],
                                   design_ref=c['design_ref']),
                level_note=c['note'], technique=c['technique']))
        else:
            na.append(dict(property_id=pid, reason=NOT_YET.get(
                pid, 'check not built yet in this round (planned: see '
                     'DESIGN.md); not claimed until its check is '
                     'registered here')))
    m = dict(
        version=1,
        setup_cmd="/venv/bin/python -c 'import hypothesis' 2>/dev/null || "
                  "/venv/bin/pip install --no-index --find-links "
                  "/opt/veriftools/wheels hypothesis",
        hooks=dict(
            guard='JOHANNESULF_NAUTILUS_VERIF',
            enable='no source hooks: checks import nautilus from the '
                   'working tree ($NV_REPO, default /repo) and observe it '
                   'through public methods wrapped on instances, a fake '
                   'clock and strace',
            baseline_off_cmd='cd /repo && /venv/bin/python -m pytest -ra -q '
                             '-p no:cacheprovider --timeout=900 '
                             '--continue-on-collection-errors',
            source_commits=[], add_only=True),
        engines=[dict(name='nv', path='/verif/nv',
                      serves_properties=sorted(CHECKS),
                      kind_free_text='Hypothesis-driven property-based '
                      'testing framework: sharded generation, violation '
                      'buckets, shrinking to JSON replay files, regression '
                      'tier, evidence writer')],
        checks=checks, not_applicable=na,
        notes='All checks: ./check <id> <quick|thorough>; replay with '
              './check replay <file>. Exit 0 held / 1 VIOLATION / 2 harness '
              'error. VERIF_SEED selects the Hypothesis seed. See DESIGN.md.')
    with open(os.path.join(HERE, 'MANIFEST.json'), 'w') as f:
        json.dump(m, f, indent=1)
        f.write('\n')


if __name__ == '__main__':
    main()
