#!/bin/bash
# usage: tools/mutant_run.sh <patch> <Cxx> [quick|thorough]
# Applies <patch> to a scratch copy of /repo (never /repo itself), runs the
# check against it with evidence/replays redirected, removes the copy.
set -u
patch=$(readlink -f "$1"); prop=$2; tier=${3:-quick}
tmp=$(mktemp -d /tmp/nvmut.XXXXXX)
mkdir -p "$tmp/repo" "$tmp/out"
git -C /repo archive HEAD | tar -x -C "$tmp/repo"
# include uncommitted working-tree state of /repo as well
( cd /repo && git diff HEAD ) | ( cd "$tmp/repo" && patch -p1 -s ) 2>/dev/null
if ! ( cd "$tmp/repo" && patch -p1 -s < "$patch" ); then echo "PATCH-FAILED $patch"; rm -rf "$tmp"; exit 3; fi
NV_REPO="$tmp/repo" NV_OUT="$tmp/out" NV_SCRATCH="$tmp/scratch" /verif/check "$prop" "$tier" > "$tmp/log" 2>&1
rc=$?
grep -E "VIOLATION|HARNESS|KNOWN|bucket|^C[0-9]+ " "$tmp/log" | head -${MUT_LINES:-8}
echo "mutant $(basename "$patch") $prop $tier -> rc=$rc"
rm -rf "$tmp"
exit $rc
