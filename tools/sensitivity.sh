#!/bin/bash
# usage: tools/sensitivity.sh [patch...]   (default: all of mutants/*.patch)
# For every deliberate breakage runs the quick check of the property named by
# the file prefix (cNN-...) against a scratch copy; prints one line each.
here=$(cd "$(dirname "$0")/.." && pwd)
patches=${@:-$here/mutants/*.patch}
for f in $patches; do
  b=$(basename "$f"); p=$(echo "$b" | cut -c1-3 | tr c C)
  out=$("$here/tools/mutant_run.sh" "$f" "$p" quick 2>&1); rc=$?
  first=$(echo "$out" | grep -m1 "bucket" | sed 's/^ *//' | cut -c1-150)
  echo "$b | $p | rc=$rc | $first"
done
