#!/bin/bash
# usage: tools/recheck_seeded.sh <name> [<Cxx> ...]  - re-run quick check(s) against seeded/<name>/patch.diff and update meta.json
name=$1; shift
dst=/verif/seeded/$name
props=${@:-$(/venv/bin/python -c "import json;print(json.load(open('$dst/meta.json'))['property'])")}
for prop in $props; do
  chk=$(MUT_LINES=6 /verif/tools/mutant_run.sh "$dst/patch.diff" "$prop" quick 2>&1); rc=$?
  echo "$chk" | tail -n 3 | cut -c1-220
  /venv/bin/python - "$dst" "$prop" "$rc" <<PY
import json, sys
dst, prop, rc = sys.argv[1:4]
chk = """$(echo "$chk" | grep -E "bucket|mutant" | head -4 | sed 's/"/\\"/g' | cut -c1-300)"""
m = json.load(open(dst + '/meta.json'))
m.setdefault('checks', {})[prop] = dict(quick_rc=int(rc), output=chk.strip().split('\n'))
if prop == m['property']:
    m['check_quick_rc'] = int(rc); m['check_output'] = chk.strip().split('\n')
json.dump(m, open(dst + '/meta.json', 'w'), indent=1)
PY
done
